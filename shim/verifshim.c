/* LD_PRELOAD shim: the simulator's seam into real child processes
 * (cargo-typify, and rustc hosting typify-macro).
 *
 *  - getrandom(): std's RandomState keys come from here; with VERIF_HASH_SEED
 *    set the bytes are a pure function of (seed, call index).
 *  - open/open64/openat/creat, read, write, close: an op log (VERIF_IO_LOG)
 *    and a fault plan (VERIF_IO_PLAN) keyed by the path an fd was opened for.
 *
 * The shim only acts inside the process whose short name equals
 * VERIF_SHIM_TARGET (children such as rustfmt inherit LD_PRELOAD but are left
 * alone).  Plan grammar:  rule(;rule)*   rule = op:pathsubstr:nth:effect
 *   op      open | read | write
 *   nth     1-based index of the matching call, or * for every call
 *   effect  an errno name (ENOSPC EIO EACCES ENOENT EROFS EDQUOT EPIPE EINTR EISDIR EMFILE)
 *           or short=N (transfer at most N bytes)
 * stdout is addressed by the path "<stdout>", stderr by "<stderr>".
 */
#define _GNU_SOURCE
#include <dlfcn.h>
#include <errno.h>
#include <fcntl.h>
#include <stdarg.h>
#include <stdint.h>
#include <stdio.h>
#include <stdlib.h>
#include <string.h>
#include <sys/syscall.h>
#include <sys/types.h>
#include <unistd.h>

extern char *program_invocation_short_name;

#define MAXFD 1024
#define MAXRULES 16

static int inited = 0;
static int active = 0;
static int have_seed = 0;
static uint64_t seed = 0;
static uint64_t rand_calls = 0;
static int log_fd = -1;
static char fd_path[MAXFD][256];

struct rule {
    char op[8];
    char path[128];
    long nth; /* -1 = every */
    int err;  /* errno, or 0 with short_n */
    long short_n;
    long seen;
};
static struct rule rules[MAXRULES];
static int nrules = 0;

static uint64_t splitmix64(uint64_t *st) {
    uint64_t z = (*st += 0x9E3779B97F4A7C15ULL);
    z = (z ^ (z >> 30)) * 0xBF58476D1CE4E5B9ULL;
    z = (z ^ (z >> 27)) * 0x94D049BB133111EBULL;
    return z ^ (z >> 31);
}

static int errno_of(const char *s) {
    if (!strcmp(s, "ENOSPC")) return ENOSPC;
    if (!strcmp(s, "EIO")) return EIO;
    if (!strcmp(s, "EACCES")) return EACCES;
    if (!strcmp(s, "ENOENT")) return ENOENT;
    if (!strcmp(s, "EROFS")) return EROFS;
    if (!strcmp(s, "EDQUOT")) return EDQUOT;
    if (!strcmp(s, "EPIPE")) return EPIPE;
    if (!strcmp(s, "EINTR")) return EINTR;
    if (!strcmp(s, "EISDIR")) return EISDIR;
    if (!strcmp(s, "EMFILE")) return EMFILE;
    return EIO;
}

static void raw_log(const char *op, const char *path, long nth, long res, int err) {
    if (log_fd < 0) return;
    char buf[512];
    int n = snprintf(buf, sizeof buf, "%s %s %ld %ld %d\n", op, path[0] ? path : "-", nth, res, err);
    if (n > 0) syscall(SYS_write, log_fd, buf, (size_t)n);
}

static void init(void) {
    if (inited) return;
    inited = 1;
    const char *target = getenv("VERIF_SHIM_TARGET");
    if (target && program_invocation_short_name && strcmp(target, program_invocation_short_name) != 0) {
        active = 0;
        return;
    }
    active = 1;
    const char *s = getenv("VERIF_HASH_SEED");
    if (s && *s) {
        have_seed = 1;
        seed = strtoull(s, NULL, 10);
    }
    strcpy(fd_path[0], "<stdin>");
    strcpy(fd_path[1], "<stdout>");
    strcpy(fd_path[2], "<stderr>");
    const char *lp = getenv("VERIF_IO_LOG");
    if (lp && *lp) {
        log_fd = (int)syscall(SYS_openat, AT_FDCWD, lp, O_WRONLY | O_CREAT | O_APPEND | O_CLOEXEC, 0644);
        if (log_fd >= 0 && log_fd < 200) {
            /* move it out of the way of the program's low fds */
            int hi = (int)syscall(SYS_fcntl, log_fd, F_DUPFD_CLOEXEC, 900);
            if (hi >= 0) {
                syscall(SYS_close, log_fd);
                log_fd = hi;
            }
        }
    }
    const char *plan = getenv("VERIF_IO_PLAN");
    if (plan && *plan) {
        char *copy = strdup(plan);
        char *save1 = NULL;
        for (char *r = strtok_r(copy, ";", &save1); r && nrules < MAXRULES; r = strtok_r(NULL, ";", &save1)) {
            char *f[4] = {0, 0, 0, 0};
            int i = 0;
            char *save2 = NULL;
            for (char *p = strtok_r(r, ":", &save2); p && i < 4; p = strtok_r(NULL, ":", &save2)) f[i++] = p;
            if (i != 4) continue;
            struct rule *ru = &rules[nrules++];
            memset(ru, 0, sizeof *ru);
            strncpy(ru->op, f[0], sizeof ru->op - 1);
            strncpy(ru->path, f[1], sizeof ru->path - 1);
            ru->nth = strcmp(f[2], "*") ? atol(f[2]) : -1;
            if (!strncmp(f[3], "short=", 6)) {
                ru->short_n = atol(f[3] + 6);
                ru->err = 0;
            } else {
                ru->err = errno_of(f[3]);
            }
        }
        free(copy);
    }
}

/* returns the matching rule that fires for this call, or NULL */
static struct rule *match(const char *op, const char *path, long *nth_out) {
    struct rule *hit = NULL;
    for (int i = 0; i < nrules; i++) {
        struct rule *ru = &rules[i];
        if (strcmp(ru->op, op)) continue;
        if (!path[0] || !strstr(path, ru->path)) continue;
        ru->seen++;
        *nth_out = ru->seen;
        if (ru->nth == -1 || ru->nth == ru->seen) {
            if (!hit) hit = ru;
        }
    }
    return hit;
}

ssize_t getrandom(void *buf, size_t len, unsigned int flags) {
    init();
    if (!active || !have_seed) return syscall(SYS_getrandom, buf, len, flags);
    uint64_t st = seed ^ (rand_calls++ * 0x9E3779B97F4A7C15ULL);
    unsigned char *p = buf;
    size_t i = 0;
    while (i < len) {
        uint64_t w = splitmix64(&st);
        size_t n = len - i < 8 ? len - i : 8;
        memcpy(p + i, &w, n);
        i += n;
    }
    raw_log("getrandom", "", (long)rand_calls, (long)len, 0);
    return (ssize_t)len;
}

static int do_open(int dirfd, const char *path, int flags, mode_t mode) {
    init();
    if (active && path) {
        long nth = 0;
        struct rule *ru = match("open", path, &nth);
        if (ru && ru->err) {
            raw_log("open", path, nth, -1, ru->err);
            errno = ru->err;
            return -1;
        }
    }
    int fd = (int)syscall(SYS_openat, dirfd, path, flags, mode);
    if (active && fd >= 0 && fd < MAXFD && path) {
        strncpy(fd_path[fd], path, sizeof fd_path[fd] - 1);
        fd_path[fd][sizeof fd_path[fd] - 1] = 0;
        raw_log((flags & (O_WRONLY | O_RDWR)) ? "open-w" : "open-r", path, 0, fd, 0);
    }
    return fd;
}

int open(const char *path, int flags, ...) {
    mode_t mode = 0;
    if (flags & (O_CREAT | O_TMPFILE)) {
        va_list ap;
        va_start(ap, flags);
        mode = va_arg(ap, mode_t);
        va_end(ap);
    }
    return do_open(AT_FDCWD, path, flags, mode);
}

int open64(const char *path, int flags, ...) {
    mode_t mode = 0;
    if (flags & (O_CREAT | O_TMPFILE)) {
        va_list ap;
        va_start(ap, flags);
        mode = va_arg(ap, mode_t);
        va_end(ap);
    }
    return do_open(AT_FDCWD, path, flags | O_LARGEFILE, mode);
}

int openat(int dirfd, const char *path, int flags, ...) {
    mode_t mode = 0;
    if (flags & (O_CREAT | O_TMPFILE)) {
        va_list ap;
        va_start(ap, flags);
        mode = va_arg(ap, mode_t);
        va_end(ap);
    }
    return do_open(dirfd, path, flags, mode);
}

int openat64(int dirfd, const char *path, int flags, ...) {
    mode_t mode = 0;
    if (flags & (O_CREAT | O_TMPFILE)) {
        va_list ap;
        va_start(ap, flags);
        mode = va_arg(ap, mode_t);
        va_end(ap);
    }
    return do_open(dirfd, path, flags | O_LARGEFILE, mode);
}

ssize_t write(int fd, const void *buf, size_t count) {
    init();
    if (active && fd >= 0 && fd < MAXFD && fd != log_fd && fd_path[fd][0]) {
        long nth = 0;
        struct rule *ru = match("write", fd_path[fd], &nth);
        if (ru) {
            if (ru->err) {
                raw_log("write", fd_path[fd], nth, -1, ru->err);
                errno = ru->err;
                return -1;
            }
            if (ru->short_n > 0 && (size_t)ru->short_n < count) count = (size_t)ru->short_n;
        }
        ssize_t r = syscall(SYS_write, fd, buf, count);
        raw_log("write", fd_path[fd], nth, (long)r, r < 0 ? errno : 0);
        return r;
    }
    return syscall(SYS_write, fd, buf, count);
}

ssize_t read(int fd, void *buf, size_t count) {
    init();
    if (active && fd >= 0 && fd < MAXFD && fd_path[fd][0]) {
        long nth = 0;
        struct rule *ru = match("read", fd_path[fd], &nth);
        if (ru) {
            if (ru->err) {
                raw_log("read", fd_path[fd], nth, -1, ru->err);
                errno = ru->err;
                return -1;
            }
            if (ru->short_n > 0 && (size_t)ru->short_n < count) count = (size_t)ru->short_n;
        }
        ssize_t r = syscall(SYS_read, fd, buf, count);
        raw_log("read", fd_path[fd], nth, (long)r, r < 0 ? errno : 0);
        return r;
    }
    return syscall(SYS_read, fd, buf, count);
}

int close(int fd) {
    init();
    if (active && fd >= 0 && fd < MAXFD && fd != log_fd) {
        if (fd_path[fd][0] && fd > 2) {
            raw_log("close", fd_path[fd], 0, 0, 0);
            fd_path[fd][0] = 0;
        }
    }
    if (fd == log_fd) return 0;
    return (int)syscall(SYS_close, fd);
}
