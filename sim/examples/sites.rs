// sites <focus> <n>: histogram of (class, valid) of default sites over n generated runs (no execution)
use std::collections::BTreeMap;
use verifsim::{desc::Op, gen, model};
fn main() {
    let a: Vec<String> = std::env::args().collect();
    let focus = verifsim::check::focus_of(&a[1]);
    let n: u64 = a[2].parse().unwrap();
    let pat = a.get(3).cloned().unwrap_or_default();
    let mut hist: BTreeMap<String, u64> = BTreeMap::new();
    for i in 0..n {
        let d = gen::generate((i + 1).wrapping_mul(0x9E3779B97F4A7C15u64), focus, false);
        let mut defs = model::Defs::new();
        for op in &d.ops {
            match op {
                Op::AddRefTypes { defs: ds, .. } => for (k, s) in ds { defs.insert(k.clone(), s.clone()); },
                Op::AddRootSchema { doc, .. } => if let Some(m) = doc.get("definitions").and_then(|m| m.as_object()) { for (k, s) in m { defs.insert(k.clone(), s.clone()); } },
                _ => {}
            }
        }
        for (k, s) in defs.clone() {
            for site in model::default_sites(&s, &k, &defs) {
                let key = format!("{:?} {} atoms={:?}", site.valid, site.class, site.invalid_atoms);
                if pat.is_empty() || key.contains(&pat) { *hist.entry(key).or_insert(0) += 1; }
            }
        }
    }
    let mut v: Vec<_> = hist.into_iter().collect();
    v.sort_by(|a, b| b.1.cmp(&a.1));
    for (k, c) in v.iter().take(60) { println!("{c:6} {k}"); }
}
