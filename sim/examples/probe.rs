// usage: probe '<json definitions object>'  -> add_ref_types, then to_stream
use std::panic::{catch_unwind, AssertUnwindSafe};
fn main() {
    let arg = std::env::args().nth(1).unwrap();
    let v: serde_json::Value = serde_json::from_str(&arg).unwrap();
    let mut ts = typify_impl::TypeSpace::default();
    let defs: Vec<(String, schemars::schema::Schema)> = v.as_object().unwrap().iter().map(|(k, s)| (k.clone(), serde_json::from_value(s.clone()).unwrap())).collect();
    let r = catch_unwind(AssertUnwindSafe(|| ts.add_ref_types(defs)));
    println!("add: {:?}", r.as_ref().map(|r| r.as_ref().map_err(|e| e.to_string())).map_err(|_| "panic"));
    let r = catch_unwind(AssertUnwindSafe(|| ts.to_stream().to_string()));
    match r { Ok(s) => { println!("render ok: parses={}", syn::parse_str::<syn::File>(&s).is_ok()); if std::env::args().nth(2).is_some() { println!("{}", s); } }, Err(_) => println!("render PANIC") }
}
