// render <rundesc.json>: execute a run description and print its final output (rustfmt'ed if possible)
fn main() {
    let d: verifsim::desc::RunDesc = serde_json::from_str(&std::fs::read_to_string(std::env::args().nth(1).unwrap()).unwrap()).unwrap();
    let o = verifsim::exec::execute(&d);
    println!("{}", o.final_output.unwrap_or_default());
}
