use verifsim::procsim::*;
fn main() {
    let doc = std::fs::read_to_string(std::env::args().nth(1).unwrap()).unwrap();
    let cli = std::fs::read_to_string(std::env::args().nth(2).unwrap()).unwrap();
    let r = reference_tokens(&doc, &CliOptions::default()).unwrap();
    let a = items_of(&cli).unwrap();
    let b = items_of(&r).unwrap();
    for (i, (x, y)) in a.iter().zip(b.iter()).enumerate() {
        if x != y {
            let pos = x.chars().zip(y.chars()).position(|(p, q)| p != q).unwrap_or(0);
            let s = pos.saturating_sub(60);
            println!("item {i} differs at char {pos}:\n cli: {}\n bld: {}", &x[s..(pos + 80).min(x.len())], &y[s..(pos + 80).min(y.len())]);
            break;
        }
    }
    println!("{} vs {}", a.len(), b.len());
}
