#!/usr/bin/env python3
"""Cross-check of the harness's draft-07 validator (sim/src/model.rs) against
python jsonschema. Input: JSON lines {"schema":..., "defs":{...}, "instance":..., "verdict": true|false|null}.
Integer formats are read as ranges (as the given properties do): the format is
turned into minimum/maximum before validating. Exit 0 when every decided
verdict agrees, 1 otherwise."""
import json, sys
from jsonschema import Draft7Validator

RANGES = {
    "int8": (-2**7, 2**7 - 1), "int16": (-2**15, 2**15 - 1), "int32": (-2**31, 2**31 - 1),
    "int64": (-2**63, 2**63 - 1), "uint8": (0, 2**8 - 1), "uint16": (0, 2**16 - 1),
    "uint32": (0, 2**32 - 1), "uint64": (0, 2**64 - 1),
}

H = "[0-9a-f]"
IPV4 = r"([0-9]{1,3}\.){3}[0-9]{1,3}"
STRING_FORMATS = {
    "uuid": "^%s{8}-%s{4}-%s{4}-%s{4}-%s{12}$" % (H, H, H, H, H),
    "date": r"^[0-9]{4}-[0-9]{2}-[0-9]{2}$",
    "date-time": r"^[0-9]{4}-[0-9]{2}-[0-9]{2}T[0-9]{2}:[0-9]{2}:[0-9]{2}Z$",
    "ipv4": "^%s$" % IPV4,
    "ip": "^(%s|[0-9a-f:]*:[0-9a-f:]*)$" % IPV4,
}

def widen(s):
    if isinstance(s, dict):
        out = {k: widen(v) for k, v in s.items() if k not in ("enum", "const", "default", "required")}
        for k in ("enum", "const", "default", "required"):
            if k in s:
                out[k] = s[k]
        fmt = s.get("format")
        if fmt in STRING_FORMATS and s.get("type") == "string":
            # string formats typify maps to library types are read as assertions
            out["pattern"] = STRING_FORMATS[fmt]
        if fmt in RANGES and ("type" in s):
            lo, hi = RANGES[fmt]
            out["minimum"] = max(lo, s.get("minimum", lo))
            out["maximum"] = min(hi, s.get("maximum", hi))
            # applies to integers only; a null in a nullable integer is unaffected
        return out
    if isinstance(s, list):
        return [widen(x) for x in s]
    return s

def main():
    bad = 0
    n = 0
    decided = 0
    for line in open(sys.argv[1]):
        case = json.loads(line)
        n += 1
        if case["verdict"] is None:
            continue
        decided += 1
        doc = widen(case["schema"])
        if not isinstance(doc, dict):
            continue
        doc = dict(doc)
        doc["definitions"] = {k: widen(v) for k, v in case["defs"].items()}
        ok = Draft7Validator(doc).is_valid(case["instance"])
        if ok != case["verdict"]:
            bad += 1
            if bad <= 10:
                print("DISAGREE model=%s jsonschema=%s schema=%s instance=%s" % (
                    case["verdict"], ok, json.dumps(case["schema"]), json.dumps(case["instance"])))
    print("xcheck: %d cases, %d decided, %d disagreements" % (n, decided, bad))
    sys.exit(1 if bad else 0)

main()
