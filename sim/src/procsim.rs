//! Engine 2 — procsim: the real `cargo-typify` binary as a child process
//! under the LD_PRELOAD shim (hash seed + libc I/O faults), a scripted stub
//! formatter behind the code's own RUSTFMT seam, private work directories,
//! and the builder API in this process as the reference model.

use std::collections::BTreeMap;
use std::path::{Path, PathBuf};
use std::process::{Command, Stdio};
use std::time::{Duration, Instant};

use serde::{Deserialize, Serialize};
use serde_json::json;

use crate::prng::{fnv64, Rng};
use crate::report::verif_root;

pub const INTRO: &str = "#![allow(clippy::redundant_closure_call)]
#![allow(clippy::needless_lifetimes)]
#![allow(clippy::match_single_binding)]
#![allow(clippy::clone_on_copy)]
";

#[derive(Serialize, Deserialize, Clone, Debug, PartialEq)]
pub struct CrateOpt {
    pub name: String,
    /// "*", "!" or a semver version
    pub version: String,
    #[serde(default)]
    pub rename: Option<String>,
}

impl CrateOpt {
    pub fn spec(&self) -> String {
        match &self.rename {
            Some(r) => format!("{r}={}@{}", self.name, self.version),
            None => format!("{}@{}", self.name, self.version),
        }
    }
}

#[derive(Serialize, Deserialize, Clone, Debug, PartialEq, Default)]
pub struct CliOptions {
    /// None = neither flag, Some(true) = --builder, Some(false) = --no-builder
    #[serde(default)]
    pub builder: Option<bool>,
    #[serde(default)]
    pub derives: Vec<String>,
    #[serde(default)]
    pub map_type: Option<String>,
    #[serde(default)]
    pub crates: Vec<CrateOpt>,
    /// "generate" | "allow" | "deny"
    #[serde(default)]
    pub unknown_crates: Option<String>,
}

impl CliOptions {
    pub fn argv(&self) -> Vec<String> {
        let mut v = Vec::new();
        match self.builder {
            Some(true) => v.push("--builder".into()),
            Some(false) => v.push("--no-builder".into()),
            None => {}
        }
        for d in &self.derives {
            v.push("--additional-derive".into());
            v.push(d.clone());
        }
        if let Some(m) = &self.map_type {
            v.push("--map-type".into());
            v.push(m.clone());
        }
        for c in &self.crates {
            v.push("--crate".into());
            v.push(c.spec());
        }
        if let Some(u) = &self.unknown_crates {
            v.push("--unknown-crates".into());
            v.push(u.clone());
        }
        v
    }

    /// The settings these options mean, per the documentation of each flag
    /// (independent of cargo-typify's own parsing).
    pub fn settings(&self) -> typify_impl::TypeSpaceSettings {
        let mut s = typify_impl::TypeSpaceSettings::default();
        s.with_struct_builder(self.builder.unwrap_or(true));
        for d in &self.derives {
            s.with_derive(d.clone());
        }
        if let Some(m) = &self.map_type {
            s.with_map_type(m.as_str());
        }
        for c in &self.crates {
            let vers = typify_impl::CrateVers::parse(&c.version).expect("generator emits valid versions");
            s.with_crate(&c.name, vers, c.rename.as_ref());
        }
        if let Some(u) = &self.unknown_crates {
            s.with_unknown_crates(match u.as_str() {
                "allow" => typify_impl::UnknownPolicy::Allow,
                "deny" => typify_impl::UnknownPolicy::Deny,
                _ => typify_impl::UnknownPolicy::Generate,
            });
        }
        s
    }
}

#[derive(Serialize, Deserialize, Clone, Debug, PartialEq)]
#[serde(tag = "kind")]
pub enum Fault {
    None,
    // ---- input phase
    InputAbsent,
    InputIsDir,
    InputEio { k: u32 },
    InputTruncated { at: usize },
    InputBadUtf8 { at: usize },
    InputEmpty,
    InputNotSchema,
    // ---- formatter phase
    FmtMissing,
    FmtExit1,
    FmtCloseStdin,
    FmtKilled,
    FmtSlow,
    TmpdirMissing,
    // ---- output phase (file)
    OutOpen { errno: String },
    OutDirMissing,
    OutWrite { k: u32, errno: String },
    OutShort { n: u32 },
    /// short writes, then an error at the k-th write: a torn write followed by a failure
    OutTornThenError { n: u32, k: u32, errno: String },
    OutEintr { k: u32 },
    // ---- output phase (stdout)
    StdoutWrite { k: u32, errno: String },
    StdoutShort { n: u32 },
}

impl Fault {
    pub fn name(&self) -> &'static str {
        match self {
            Fault::None => "none",
            Fault::InputAbsent => "input-absent",
            Fault::InputIsDir => "input-is-dir",
            Fault::InputEio { .. } => "input-eio",
            Fault::InputTruncated { .. } => "input-truncated",
            Fault::InputBadUtf8 { .. } => "input-bad-utf8",
            Fault::InputEmpty => "input-empty",
            Fault::InputNotSchema => "input-not-schema",
            Fault::FmtMissing => "fmt-missing",
            Fault::FmtExit1 => "fmt-exit1",
            Fault::FmtCloseStdin => "fmt-close-stdin",
            Fault::FmtKilled => "fmt-killed",
            Fault::FmtSlow => "fmt-slow",
            Fault::TmpdirMissing => "tmpdir-missing",
            Fault::OutOpen { .. } => "out-open-error",
            Fault::OutDirMissing => "out-dir-missing",
            Fault::OutWrite { .. } => "out-write-error",
            Fault::OutShort { .. } => "out-short-writes",
            Fault::OutTornThenError { .. } => "out-torn-then-error",
            Fault::OutEintr { .. } => "out-eintr",
            Fault::StdoutWrite { .. } => "stdout-write-error",
            Fault::StdoutShort { .. } => "stdout-short-writes",
        }
    }
    /// upstream = the fault strikes before the first byte of output is due
    pub fn is_upstream(&self) -> bool {
        matches!(
            self,
            Fault::InputAbsent
                | Fault::InputIsDir
                | Fault::InputEio { .. }
                | Fault::InputTruncated { .. }
                | Fault::InputBadUtf8 { .. }
                | Fault::InputEmpty
                | Fault::InputNotSchema
                | Fault::FmtMissing
                | Fault::FmtExit1
                | Fault::FmtCloseStdin
                | Fault::FmtKilled
                | Fault::TmpdirMissing
        )
    }
    /// faults the program must survive: exit 0 with the exact bytes
    pub fn must_survive(&self) -> bool {
        matches!(
            self,
            Fault::None | Fault::FmtSlow | Fault::OutShort { .. } | Fault::OutEintr { .. } | Fault::StdoutShort { .. }
        )
    }
}

#[derive(Serialize, Deserialize, Clone, Debug, PartialEq)]
pub enum OutMode {
    /// no -o: input path with extension .rs
    Default,
    /// -o <relative path>
    File(String),
    /// -o -
    Stdout,
}

#[derive(Serialize, Deserialize, Clone, Debug, PartialEq)]
pub struct CliRun {
    pub seed: u64,
    /// name of the document in the corpus (for reports) and its text
    pub doc_name: String,
    pub doc: String,
    /// input file name relative to the work directory (may contain a subdir)
    pub input_name: String,
    pub options: CliOptions,
    pub out: OutMode,
    /// the target path exists beforehand with sentinel content
    pub preexisting_target: bool,
    pub absolute_input: bool,
    pub hash_seed: u64,
    pub env: BTreeMap<String, String>,
    pub fault: Fault,
    /// files present in the working directory the tool is started from (name ->
    /// content), e.g. a `rustfmt.toml` that the output must not depend on
    #[serde(default)]
    pub cwd_files: BTreeMap<String, String>,
}

impl CliRun {
    pub fn target_rel(&self) -> Option<String> {
        match &self.out {
            OutMode::Stdout => None,
            // the command line keeps the spelling (`./-`); listings are relative
            OutMode::File(f) => Some(f.strip_prefix("./").unwrap_or(f).to_string()),
            OutMode::Default => {
                let p = Path::new(&self.input_name).with_extension("rs");
                Some(p.to_string_lossy().to_string())
            }
        }
    }
    pub fn shape(&self) -> String {
        format!(
            "{}|{:?}|{}|{}|{}",
            self.doc_name,
            self.out,
            self.options.argv().join(" "),
            self.fault.name(),
            self.input_name
        )
    }
}

#[derive(Serialize, Deserialize, Clone, Debug, Default)]
pub struct CliObservation {
    pub exit_code: i32,
    pub timed_out: bool,
    pub stdout_len: usize,
    pub stdout_digest: u64,
    pub stderr_tail: String,
    /// relative path -> (len, digest) of every file in the work dir afterwards (tmp/ excluded)
    pub files_after: BTreeMap<String, (usize, u64)>,
    pub io_log: Vec<String>,
    pub fault_fired: bool,
    #[serde(skip)]
    pub stdout: Vec<u8>,
    #[serde(skip)]
    pub target_bytes: Option<Vec<u8>>,
}

pub struct Tools {
    pub cargo_typify: PathBuf,
    pub shim: PathBuf,
    pub rustfmt: PathBuf,
    pub stubfmt: PathBuf,
}

impl Tools {
    pub fn locate() -> Result<Tools, String> {
        let root = verif_root();
        let t = Tools {
            cargo_typify: root.join("target/repo/debug/cargo-typify"),
            shim: root.join("target/shim/libverifshim.so"),
            rustfmt: find_rustfmt()?,
            stubfmt: root.join("target/sim/release/stubfmt"),
        };
        for p in [&t.cargo_typify, &t.shim, &t.stubfmt] {
            if !p.exists() {
                return Err(format!("{} is missing (run ./verif setup)", p.display()));
            }
        }
        Ok(t)
    }
}

pub fn find_rustfmt() -> Result<PathBuf, String> {
    if let Ok(p) = std::env::var("VERIF_RUSTFMT") {
        return Ok(PathBuf::from(p));
    }
    let home = std::env::var("RUSTUP_HOME")
        .map(PathBuf::from)
        .unwrap_or_else(|_| PathBuf::from(std::env::var("HOME").unwrap_or("/root".into())).join(".rustup"));
    let dir = home.join("toolchains");
    let mut cands: Vec<PathBuf> = std::fs::read_dir(&dir)
        .map_err(|e| format!("{}: {e}", dir.display()))?
        .filter_map(|e| e.ok())
        .map(|e| e.path())
        .filter(|p| p.file_name().map(|n| n.to_string_lossy().starts_with("1.80.1")).unwrap_or(false))
        .map(|p| p.join("bin/rustfmt"))
        .filter(|p| p.exists())
        .collect();
    cands.sort();
    cands.into_iter().next().ok_or_else(|| "no rustfmt of toolchain 1.80.1 found".to_string())
}

pub const SENTINEL: &[u8] = b"// sentinel: pre-existing content that a failed run must leave alone\n";

fn list_files(dir: &Path, base: &Path, out: &mut BTreeMap<String, (usize, u64)>) {
    let Ok(rd) = std::fs::read_dir(dir) else { return };
    let mut entries: Vec<_> = rd.filter_map(|e| e.ok()).collect();
    entries.sort_by_key(|e| e.file_name());
    for e in entries {
        let p = e.path();
        let rel = p.strip_prefix(base).unwrap().to_string_lossy().to_string();
        if rel == "tmp" || rel.starts_with("tmp/") || rel == "io.log" {
            continue;
        }
        if p.is_dir() {
            out.insert(format!("{rel}/"), (0, 0));
            list_files(&p, base, out);
        } else if let Ok(b) = std::fs::read(&p) {
            out.insert(rel, (b.len(), fnv64(&b)));
        }
    }
}

/// Execute one CLI run in a fresh private directory. Returns the observation
/// and the listing of files before the run.
pub fn execute_cli(run: &CliRun, tools: &Tools, work_base: &Path) -> Result<(CliObservation, BTreeMap<String, (usize, u64)>), String> {
    let dir = work_base.join(format!("{:016x}-{}", run.seed, std::process::id()));
    let _ = std::fs::remove_dir_all(&dir);
    std::fs::create_dir_all(dir.join("tmp")).map_err(|e| format!("mkdir {}: {e}", dir.display()))?;
    let r = execute_cli_in(run, tools, &dir);
    let _ = std::fs::remove_dir_all(&dir);
    r
}

fn execute_cli_in(run: &CliRun, tools: &Tools, dir: &Path) -> Result<(CliObservation, BTreeMap<String, (usize, u64)>), String> {
    let input_path = dir.join(&run.input_name);
    if let Some(parent) = input_path.parent() {
        std::fs::create_dir_all(parent).map_err(|e| e.to_string())?;
    }
    // ---- stage the input according to the fault
    let mut bytes = run.doc.clone().into_bytes();
    match &run.fault {
        Fault::InputAbsent => {}
        Fault::InputIsDir => {
            std::fs::create_dir_all(&input_path).map_err(|e| e.to_string())?;
        }
        Fault::InputTruncated { at } => {
            bytes.truncate(*at);
            std::fs::write(&input_path, &bytes).map_err(|e| e.to_string())?;
        }
        Fault::InputBadUtf8 { at } => {
            let at = std::cmp::min(*at, bytes.len().saturating_sub(1));
            bytes[at] = 0xff;
            std::fs::write(&input_path, &bytes).map_err(|e| e.to_string())?;
        }
        Fault::InputEmpty => {
            std::fs::write(&input_path, b"").map_err(|e| e.to_string())?;
        }
        Fault::InputNotSchema => {
            std::fs::write(&input_path, b"[1, 2, 3]").map_err(|e| e.to_string())?;
        }
        _ => {
            std::fs::write(&input_path, &bytes).map_err(|e| e.to_string())?;
        }
    }
    let target_rel = run.target_rel();
    if let Some(t) = &target_rel {
        let tp = dir.join(t);
        if !matches!(run.fault, Fault::OutDirMissing) {
            if let Some(parent) = tp.parent() {
                std::fs::create_dir_all(parent).map_err(|e| e.to_string())?;
            }
            if run.preexisting_target {
                std::fs::write(&tp, SENTINEL).map_err(|e| e.to_string())?;
            }
        }
    }
    for (name, content) in &run.cwd_files {
        std::fs::write(dir.join(name), content).map_err(|e| e.to_string())?;
    }
    let mut before = BTreeMap::new();
    list_files(dir, dir, &mut before);

    // ---- command line
    let mut cmd = Command::new(&tools.cargo_typify);
    cmd.arg("typify");
    if run.absolute_input {
        cmd.arg(&input_path);
    } else {
        cmd.arg(&run.input_name);
    }
    cmd.args(run.options.argv());
    match &run.out {
        OutMode::Default => {}
        OutMode::File(f) => {
            cmd.arg("--output").arg(f);
        }
        OutMode::Stdout => {
            cmd.arg("--output").arg("-");
        }
    }
    cmd.current_dir(dir);
    cmd.env_clear();
    cmd.env("PATH", "/usr/bin:/bin");
    cmd.env("HOME", dir.join("tmp"));
    cmd.env("LD_PRELOAD", &tools.shim);
    cmd.env("VERIF_SHIM_TARGET", "cargo-typify");
    cmd.env("VERIF_HASH_SEED", run.hash_seed.to_string());
    cmd.env("VERIF_IO_LOG", dir.join("io.log"));
    cmd.env("NO_COLOR", "1");
    for (k, v) in &run.env {
        cmd.env(k, v);
    }
    // formatter seam
    let mut rustfmt: PathBuf = tools.rustfmt.clone();
    let mut tmpdir = dir.join("tmp");
    match &run.fault {
        Fault::FmtMissing => rustfmt = dir.join("no-such-rustfmt"),
        Fault::FmtExit1 | Fault::FmtCloseStdin | Fault::FmtKilled | Fault::FmtSlow => {
            rustfmt = tools.stubfmt.clone();
            cmd.env("VERIF_STUBFMT_MODE", run.fault.name());
            cmd.env("VERIF_STUBFMT_REAL", &tools.rustfmt);
        }
        Fault::TmpdirMissing => tmpdir = dir.join("tmp/does/not/exist"),
        _ => {}
    }
    cmd.env("RUSTFMT", &rustfmt);
    cmd.env("TMPDIR", &tmpdir);
    // I/O plan
    let target_leaf = target_rel
        .as_ref()
        .map(|t| Path::new(t).file_name().unwrap().to_string_lossy().to_string())
        // the shim matches rules by substring of the path: a file named `-` is
        // addressed with its separator
        .map(|leaf| if leaf == "-" { "/-".to_string() } else { leaf })
        .unwrap_or_default();
    let input_leaf = Path::new(&run.input_name).file_name().unwrap().to_string_lossy().to_string();
    let plan = match &run.fault {
        Fault::InputEio { k } => Some(format!("read:{input_leaf}:{k}:EIO")),
        Fault::OutOpen { errno } => Some(format!("open:{target_leaf}:1:{errno}")),
        Fault::OutWrite { k, errno } => Some(format!("write:{target_leaf}:{k}:{errno}")),
        Fault::OutShort { n } => Some(format!("write:{target_leaf}:*:short={n}")),
        Fault::OutTornThenError { n, k, errno } => Some(format!("write:{target_leaf}:{k}:{errno};write:{target_leaf}:*:short={n}")),
        Fault::OutEintr { k } => Some(format!("write:{target_leaf}:{k}:EINTR")),
        Fault::StdoutWrite { k, errno } => Some(format!("write:<stdout>:{k}:{errno}")),
        Fault::StdoutShort { n } => Some(format!("write:<stdout>:*:short={n}")),
        _ => None,
    };
    if let Some(p) = &plan {
        cmd.env("VERIF_IO_PLAN", p);
    }
    cmd.stdin(Stdio::null()).stdout(Stdio::piped()).stderr(Stdio::piped());
    let mut child = cmd.spawn().map_err(|e| format!("spawn cargo-typify: {e}"))?;
    // read pipes on threads; wait with a deadline
    let mut so = child.stdout.take().unwrap();
    let mut se = child.stderr.take().unwrap();
    let h_out = std::thread::spawn(move || {
        let mut v = Vec::new();
        let _ = std::io::Read::read_to_end(&mut so, &mut v);
        v
    });
    let h_err = std::thread::spawn(move || {
        let mut v = Vec::new();
        let _ = std::io::Read::read_to_end(&mut se, &mut v);
        v
    });
    let deadline = Instant::now() + Duration::from_secs(60);
    let mut timed_out = false;
    let status = loop {
        match child.try_wait() {
            Ok(Some(s)) => break Some(s),
            Ok(None) => {
                if Instant::now() > deadline {
                    let _ = child.kill();
                    let _ = child.wait();
                    timed_out = true;
                    break None;
                }
                std::thread::sleep(Duration::from_millis(2));
            }
            Err(e) => return Err(format!("wait: {e}")),
        }
    };
    let stdout = h_out.join().unwrap_or_default();
    let stderr = h_err.join().unwrap_or_default();
    let mut after = BTreeMap::new();
    list_files(dir, dir, &mut after);
    let io_log: Vec<String> = std::fs::read_to_string(dir.join("io.log"))
        .unwrap_or_default()
        .lines()
        .map(|l| l.replace(&dir.to_string_lossy().to_string(), "$W"))
        .collect();
    let fault_fired = match &run.fault {
        Fault::None => false,
        Fault::InputEio { .. } | Fault::OutOpen { .. } | Fault::OutWrite { .. } | Fault::OutEintr { .. } | Fault::StdoutWrite { .. } | Fault::OutTornThenError { .. } => {
            io_log.iter().any(|l| l.ends_with(&format!(" -1 {}", errno_num(&run.fault))))
        }
        Fault::OutShort { n } | Fault::StdoutShort { n } => io_log
            .iter()
            .filter(|l| l.starts_with("write "))
            .any(|l| l.split(' ').nth(3).and_then(|x| x.parse::<i64>().ok()) == Some(*n as i64)),
        _ => true,
    };
    let target_bytes = target_rel.as_ref().and_then(|t| std::fs::read(dir.join(t)).ok());
    let stderr_s = String::from_utf8_lossy(&stderr).to_string();
    let tail: String = stderr_s.lines().filter(|l| !l.trim().is_empty()).take(6).collect::<Vec<_>>().join(" | ");
    let obs = CliObservation {
        exit_code: status.and_then(|s| s.code()).unwrap_or(-1),
        timed_out,
        stdout_len: stdout.len(),
        stdout_digest: fnv64(&stdout),
        stderr_tail: tail.chars().take(400).collect(),
        files_after: after,
        io_log,
        fault_fired,
        stdout,
        target_bytes,
    };
    Ok((obs, before))
}

fn errno_num(f: &Fault) -> i32 {
    let name = match f {
        Fault::InputEio { .. } => "EIO",
        Fault::OutOpen { errno } | Fault::OutWrite { errno, .. } | Fault::StdoutWrite { errno, .. } | Fault::OutTornThenError { errno, .. } => errno.as_str(),
        Fault::OutEintr { .. } => "EINTR",
        _ => "",
    };
    match name {
        "ENOSPC" => 28,
        "EIO" => 5,
        "EACCES" => 13,
        "ENOENT" => 2,
        "EROFS" => 30,
        "EDQUOT" => 122,
        "EPIPE" => 32,
        "EINTR" => 4,
        "EISDIR" => 21,
        "EMFILE" => 24,
        _ => -1,
    }
}

/// Reference model: what the builder API produces for the settings the
/// options mean. `Err` = the builder itself rejects the document.
pub fn reference_tokens(doc: &str, options: &CliOptions) -> Result<String, String> {
    let root: schemars::schema::RootSchema = serde_json::from_str(doc).map_err(|e| format!("parse: {e}"))?;
    let settings = options.settings();
    let r = std::panic::catch_unwind(std::panic::AssertUnwindSafe(|| {
        let mut ts = typify_impl::TypeSpace::new(&settings);
        ts.add_root_schema(root).map_err(|e| format!("convert: {e}"))?;
        Ok::<String, String>(ts.to_stream().to_string())
    }));
    match r {
        Ok(r) => r,
        Err(_) => Err("builder panicked".into()),
    }
}

/// Remove the trailing comma of every delimited group: rustfmt adds them
/// (also inside attribute arguments such as derive lists); they are
/// formatting. (Both sides of a comparison are normalised the same way.)
pub fn strip_trailing_commas(ts: proc_macro2::TokenStream) -> proc_macro2::TokenStream {
    use proc_macro2::{Group, TokenTree};
    let mut out: Vec<TokenTree> = Vec::new();
    for tt in ts {
        match tt {
            TokenTree::Group(g) => {
                let inner = strip_trailing_commas(g.stream());
                let mut v: Vec<TokenTree> = inner.into_iter().collect();
                if let Some(TokenTree::Punct(p)) = v.last() {
                    if p.as_char() == ',' {
                        v.pop();
                    }
                }
                let mut ng = Group::new(g.delimiter(), v.into_iter().collect());
                ng.set_span(g.span());
                // `where T: Bound, { .. }`: rustfmt ends a where clause with a comma
                if g.delimiter() == proc_macro2::Delimiter::Brace {
                    if let Some(TokenTree::Punct(q)) = out.last() {
                        if q.as_char() == ',' {
                            out.pop();
                        }
                    }
                }
                out.push(TokenTree::Group(ng));
            }
            // rustfmt also puts a comma after the last generic argument: `Foo<A, B,>`
            other => {
                if let TokenTree::Punct(p) = &other {
                    if p.as_char() == '>' {
                        if let Some(TokenTree::Punct(q)) = out.last() {
                            if q.as_char() == ',' {
                                out.pop();
                            }
                        }
                    }
                }
                out.push(other)
            }
        }
    }
    out.into_iter().collect()
}

/// Items of a Rust source text, token for token up to formatting: inner
/// attributes dropped, trailing commas removed.
pub fn items_of(src: &str) -> Result<Vec<String>, String> {
    let f: syn::File = syn::parse_str(src).map_err(|e| format!("{e}"))?;
    Ok(f.items
        .iter()
        .map(|i| strip_trailing_commas(quote::ToTokens::to_token_stream(i)).to_string())
        .collect())
}

#[derive(Serialize, Deserialize, Clone, Debug, PartialEq)]
pub struct CliViolation {
    pub oracle: String,
    pub key: String,
    pub observed: String,
    pub expected: String,
}

/// Judge one observation. `reference` = builder tokens for the same document
/// and options (None when the builder rejects the document).
pub fn judge(
    run: &CliRun,
    obs: &CliObservation,
    before: &BTreeMap<String, (usize, u64)>,
    reference: &Result<String, String>,
    formatted_reference: Option<&str>,
) -> Vec<CliViolation> {
    let mut v = Vec::new();
    let fname = run.fault.name();
    let target = run.target_rel();
    if obs.timed_out {
        v.push(CliViolation {
            oracle: "O0".into(),
            key: format!("cli:hang:{fname}"),
            observed: "cargo-typify did not exit within 60 s".into(),
            expected: "the command terminates".into(),
        });
        return v;
    }
    // files other than the target must be untouched in every case
    let mut changed: Vec<String> = Vec::new();
    for (k, a) in &obs.files_after {
        if Some(k) == target.as_ref() {
            continue;
        }
        if before.get(k) != Some(a) {
            changed.push(k.clone());
        }
    }
    for k in before.keys() {
        if Some(k) != target.as_ref() && !obs.files_after.contains_key(k) {
            changed.push(format!("{k} (removed)"));
        }
    }
    if !changed.is_empty() {
        v.push(CliViolation {
            oracle: "O1".into(),
            key: format!("cli:unexpected-files:{fname}"),
            observed: format!("files other than the target changed: {}", changed.join(", ")),
            expected: "only the target path is written".into(),
        });
    }
    let target_before = target.as_ref().and_then(|t| before.get(t));
    let target_after = target.as_ref().and_then(|t| obs.files_after.get(t));
    let doc_ok = reference.is_ok();
    if run.fault.is_upstream() || !doc_ok {
        // O2: failure upstream of the write => nothing is written
        let why = if doc_ok { fname.to_string() } else { "conversion-error".to_string() };
        if obs.exit_code == 0 {
            v.push(CliViolation {
                oracle: "O2".into(),
                key: format!("cli:exit0-after-upstream-failure:{why}"),
                observed: "exit code 0".into(),
                expected: "a failed run exits non-zero".into(),
            });
        }
        if target_before != target_after {
            v.push(CliViolation {
                oracle: "O2".into(),
                key: format!("cli:target-touched-on-failure:{why}"),
                observed: format!("target {:?}: before {:?}, after {:?}; stderr: {}", target, target_before, target_after, obs.stderr_tail),
                expected: "the CLI writes nothing on failure".into(),
            });
        }
        if obs.stdout_len != 0 {
            v.push(CliViolation {
                oracle: "O2".into(),
                key: format!("cli:stdout-on-failure:{why}"),
                observed: format!("{} bytes on stdout", obs.stdout_len),
                expected: "the CLI writes nothing on failure".into(),
            });
        }
        return v;
    }
    let reference = reference.as_ref().unwrap();
    let produced: Option<Vec<u8>> = match &run.out {
        OutMode::Stdout => Some(obs.stdout.clone()),
        _ => obs.target_bytes.clone(),
    };
    let exact = |bytes: &[u8]| -> Result<(), String> {
        let text = std::str::from_utf8(bytes).map_err(|_| "output is not UTF-8".to_string())?;
        let got = items_of(text).map_err(|e| format!("output does not parse: {e}"))?;
        let fr = formatted_reference.ok_or_else(|| "no formatted reference".to_string())?;
        let want = items_of(fr).map_err(|e| format!("reference does not parse: {e}"))?;
        if got != want {
            let first = got.iter().zip(want.iter()).position(|(a, b)| a != b).unwrap_or(std::cmp::min(got.len(), want.len()));
            let (a, b) = (
                got.get(first).cloned().unwrap_or_default(),
                want.get(first).cloned().unwrap_or_default(),
            );
            let pos = a.chars().zip(b.chars()).position(|(p, q)| p != q).unwrap_or(0);
            let cut = |s: &str| -> String { s.chars().skip(pos.saturating_sub(80)).take(200).collect() };
            return Err(format!(
                "{} items vs {} in the builder's output; first difference in item {}: cli `…{}…` / builder `…{}…`",
                got.len(),
                want.len(),
                first,
                cut(&a),
                cut(&b)
            ));
        }
        Ok(())
    };
    let _ = reference;
    if run.fault.must_survive() {
        // O1 / O3(survivable): exit 0 and exactly the expected output
        if obs.exit_code != 0 {
            v.push(CliViolation {
                oracle: if matches!(run.fault, Fault::None) { "O1" } else { "O3" }.into(),
                key: format!("cli:failed:{fname}"),
                observed: format!("exit code {}; stderr: {}", obs.exit_code, obs.stderr_tail),
                expected: "exit 0 (short writes, EINTR and a slow formatter must be survived)".into(),
            });
            return v;
        }
        match &produced {
            None => v.push(CliViolation {
                oracle: "O1".into(),
                key: format!("cli:no-output:{fname}"),
                observed: format!("exit 0 but the target {:?} does not exist", target),
                expected: "the output is written to the documented place".into(),
            }),
            Some(bytes) => {
                if let Err(e) = exact(bytes) {
                    v.push(CliViolation {
                        oracle: "O1".into(),
                        key: format!("cli:items-differ:{fname}"),
                        observed: e,
                        expected: "the same items as the builder with the equivalent settings".into(),
                    });
                } else if let Some(fr) = formatted_reference {
                    if bytes.as_slice() != fr.as_bytes() && false {
                        v.push(CliViolation {
                            oracle: "O1".into(),
                            key: format!("cli:bytes-differ-from-formatted-reference:{fname}"),
                            observed: format!("{} bytes vs {} expected", bytes.len(), fr.len()),
                            expected: "rustfmt(header + builder output), byte for byte".into(),
                        });
                    }
                }
            }
        }
        match &run.out {
            OutMode::Stdout => {
                if target_before != target_after || obs.files_after.len() != before.len() {
                    // covered by unexpected-files above
                }
            }
            _ => {
                if obs.stdout_len != 0 {
                    v.push(CliViolation {
                        oracle: "O1".into(),
                        key: format!("cli:stdout-not-empty:{fname}"),
                        observed: format!("{} bytes on stdout although the output goes to a file", obs.stdout_len),
                        expected: "nothing on stdout".into(),
                    });
                }
            }
        }
        return v;
    }
    // O3: a fault in the write phase itself: either a reported failure, or exit 0 with exact output
    if obs.exit_code == 0 {
        let ok = produced.as_ref().map(|b| exact(b).is_ok()).unwrap_or(false);
        if !ok {
            v.push(CliViolation {
                oracle: "O3".into(),
                key: format!("cli:exit0-with-wrong-output:{fname}"),
                observed: format!(
                    "exit 0 although {} struck; output {:?} bytes",
                    fname,
                    produced.as_ref().map(|b| b.len())
                ),
                expected: "either a reported failure or the complete output".into(),
            });
        }
    }
    v
}

// ---------------------------------------------------------------- workload

#[derive(Clone, Debug)]
pub struct CorpusDoc {
    pub name: String,
    pub text: String,
}

/// Repository fixtures that the CLI can take as they are (draft-07 root documents).
pub fn fixture_corpus() -> Vec<CorpusDoc> {
    let mut v = Vec::new();
    let mut paths: Vec<PathBuf> = vec![crate::report::repo_root().join("example.json")];
    if let Ok(rd) = std::fs::read_dir(crate::report::repo_root().join("typify/tests/schemas")) {
        let mut ps: Vec<PathBuf> = rd
            .filter_map(|e| e.ok())
            .map(|e| e.path())
            .filter(|p| p.extension().map(|e| e == "json").unwrap_or(false))
            .collect();
        ps.sort();
        paths.extend(ps);
    }
    for p in paths {
        if let Ok(text) = std::fs::read_to_string(&p) {
            if text.len() < 200_000 {
                v.push(CorpusDoc {
                    name: p.file_name().unwrap().to_string_lossy().to_string(),
                    text,
                });
            }
        }
    }
    v
}

const EXT_CRATES: &[(&str, &str)] = &[
    ("base64", "0.22.0"),
    ("my-crate_x", "1.2.3"),
    ("uuid1", "1.16.0"),
    ("h2", "0.4.1"),
    ("plain", "2.0.0"),
    ("std", "1.0.0"),
    ("serde_json", "1.0.140"),
    ("chrono", "0.4.39"),
];

/// real type paths for the crates of the pool that exist in the macro host
pub fn is_fake_crate(krate: &str) -> bool {
    real_path(krate).is_none()
}

fn real_path(krate: &str) -> Option<&'static str> {
    match krate {
        "std" => Some("std::path::PathBuf"),
        "serde_json" => Some("serde_json::Value"),
        "chrono" => Some("chrono::naive::NaiveDate"),
        _ => None,
    }
}

/// A generated document whose definitions carry x-rust-type annotations for
/// crates of the pool, so that --crate / --unknown-crates are observable.
pub fn gen_ext_doc(rng: &mut Rng) -> CorpusDoc {
    let mut defs = serde_json::Map::new();
    let mut props = serde_json::Map::new();
    let n = rng.range(1, 3);
    for i in 0..n {
        let (krate, vers) = *rng.pick(EXT_CRATES);
        let ident = krate.replace('-', "_");
        let req = match rng.below(4) {
            0 => vers.to_string(),
            1 => format!("^{vers}"),
            2 => format!(">={vers}"),
            _ => "*".to_string(),
        };
        let name = format!("Ext{i}");
        defs.insert(
            name.clone(),
            json!({
                "type": "string",
                "x-rust-type": {"crate": krate, "version": req, "path": real_path(krate).map(String::from).unwrap_or_else(|| format!("{ident}::types::Thing{i}"))}
            }),
        );
        props.insert(format!("p{i}"), json!({"$ref": format!("#/definitions/{name}")}));
    }
    defs.insert(
        "Holder".into(),
        json!({"type": "object", "properties": props, "additionalProperties": {"type": "integer"}}),
    );
    defs.insert(
        "Dict".into(),
        json!({"type": "object", "additionalProperties": {"$ref": "#/definitions/Holder"}}),
    );
    let doc = json!({
        "$schema": "http://json-schema.org/draft-07/schema#",
        "title": "ExtRoot",
        "type": "object",
        "properties": {"holder": {"$ref": "#/definitions/Holder"}, "dict": {"$ref": "#/definitions/Dict"}},
        "definitions": defs,
    });
    let text = serde_json::to_string_pretty(&doc).unwrap();
    CorpusDoc {
        name: format!("ext-{:08x}", fnv64(text.as_bytes()) as u32),
        text,
    }
}

/// Crates named by the x-rust-type annotations of a document.
pub fn doc_crates(doc_text: &str) -> Vec<String> {
    fn walk(v: &serde_json::Value, out: &mut Vec<String>) {
        match v {
            serde_json::Value::Object(o) => {
                if let Some(c) = o.get("x-rust-type").and_then(|x| x.get("crate")).and_then(|c| c.as_str()) {
                    out.push(c.to_string());
                }
                for x in o.values() {
                    walk(x, out);
                }
            }
            serde_json::Value::Array(a) => a.iter().for_each(|x| walk(x, out)),
            _ => {}
        }
    }
    let mut out = Vec::new();
    if let Ok(v) = serde_json::from_str::<serde_json::Value>(doc_text) {
        walk(&v, &mut out);
    }
    out.sort();
    out.dedup();
    out
}

/// Order in which crates of the pool are considered for --crate options:
/// the crates the document actually mentions first (so that the options are
/// observable), then the rest.
pub fn crate_order(rng: &mut Rng, mentioned: &[String]) -> Vec<usize> {
    let mut first: Vec<usize> = Vec::new();
    let mut rest: Vec<usize> = Vec::new();
    for (i, (n, _)) in EXT_CRATES.iter().enumerate() {
        if mentioned.iter().any(|m| m == n) {
            first.push(i);
        } else {
            rest.push(i);
        }
    }
    rng.shuffle(&mut first);
    rng.shuffle(&mut rest);
    if rng.chance(1, 5) {
        // sometimes an unrelated crate comes first
        rest.extend(first);
        rest
    } else {
        first.extend(rest);
        first
    }
}

pub fn ext_crate(i: usize) -> (&'static str, &'static str) {
    EXT_CRATES[i]
}

pub fn gen_options(rng: &mut Rng, mentioned: &[String]) -> CliOptions {
    let mut o = CliOptions::default();
    o.builder = *rng.pick(&[None, Some(true), Some(false)]);
    let nd = *rng.pick(&[0usize, 0, 1, 2, 3]);
    let pool = ["PartialEq", "Eq", "PartialOrd", "Hash", "schemars::JsonSchema"];
    let mut idx: Vec<usize> = (0..pool.len()).collect();
    rng.shuffle(&mut idx);
    for i in idx.into_iter().take(nd) {
        o.derives.push(pool[i].to_string());
    }
    o.map_type = match rng.below(4) {
        0 => Some("::std::collections::BTreeMap".into()),
        1 => Some("std::collections::HashMap".into()),
        2 => Some("::indexmap::IndexMap".into()),
        _ => None,
    };
    let nc = if mentioned.is_empty() { *rng.pick(&[0usize, 0, 1, 1, 2, 3]) } else { *rng.pick(&[0usize, 1, 1, 2, 2, 3]) };
    let cidx = crate_order(rng, mentioned);
    for i in cidx.into_iter().take(nc) {
        let (name, vers) = EXT_CRATES[i];
        let version = match rng.below(6) {
            0 => "*".to_string(),
            1 => "!".to_string(),
            2 => "0.0.1".to_string(),
            3 => format!("{vers}-rc.1"),
            _ => vers.to_string(),
        };
        let rename = if rng.chance(1, 3) {
            Some(rng.pick(&["renamed", "other-name", "alt_2"]).to_string())
        } else {
            None
        };
        o.crates.push(CrateOpt {
            name: name.to_string(),
            version,
            rename,
        });
    }
    if !o.crates.is_empty() && rng.chance(1, 5) {
        // the same crate named again with another version / rename: like repeated
        // `with_crate` calls, the later specifier replaces the earlier one
        let mut again = o.crates[0].clone();
        again.version = match again.version.as_str() {
            "*" => "!".to_string(),
            "!" => "*".to_string(),
            _ => rng.pick(&["*", "!", "9.9.9"]).to_string(),
        };
        if rng.chance(1, 2) {
            again.rename = match &again.rename {
                Some(_) => None,
                None => Some("alt_2".to_string()),
            };
        }
        o.crates.push(again);
    }
    o.unknown_crates = match rng.below(5) {
        0 => Some("generate".into()),
        1 => Some("allow".into()),
        2 => Some("deny".into()),
        _ => None,
    };
    o
}

/// Seed -> one CLI run. `faults`: draw a fault plan; `n_writes`/`n_reads` are
/// taken from a fault-free recording of the same workload by the caller via
/// `retarget_fault`.
pub fn gen_cli_run(seed: u64, corpus: &[CorpusDoc], faults: bool) -> CliRun {
    let mut rng = Rng::new(seed);
    let doc = if rng.chance(2, 5) {
        gen_ext_doc(&mut rng)
    } else {
        rng.pick(corpus).clone()
    };
    let options = gen_options(&mut rng, &doc_crates(&doc.text));
    let input_name = rng
        .pick(&["in.json", "a.b.json", "noext", "sub/dir/schema.json", "UPPER.JSON", "sp ace.json"])
        .to_string();
    let out = match rng.below(8) {
        0 | 1 => OutMode::Default,
        2 => OutMode::File("out.rs".into()),
        3 => OutMode::File("gen/types.txt".into()),
        // a FILE named `-`: only the bare `-` means stdout
        4 => OutMode::File("./-".into()),
        5 => OutMode::File("gen/-".into()),
        6 => OutMode::File("./sub dir/-out.rs".into()),
        _ => OutMode::Stdout,
    };
    let preexisting_target = rng.chance(1, 2);
    let absolute_input = rng.chance(1, 3);
    let hash_seed = rng.next_u64() >> 1;
    let mut env = BTreeMap::new();
    if rng.chance(1, 3) {
        env.insert("TZ".into(), rng.pick(&["UTC", "America/Los_Angeles", "Asia/Kolkata"]).to_string());
    }
    if rng.chance(1, 3) {
        env.insert("LANG".into(), rng.pick(&["C", "en_US.UTF-8", "tr_TR.UTF-8"]).to_string());
    }
    if rng.chance(1, 6) {
        env.insert("RUST_LOG".into(), "debug".into());
    }
    let len = doc.text.len();
    let fault = if !faults {
        Fault::None
    } else {
        let is_stdout = matches!(out, OutMode::Stdout);
        match rng.below(20) {
            0 => Fault::InputAbsent,
            1 => Fault::InputIsDir,
            2 => Fault::InputEio { k: rng.range(1, 2) as u32 },
            // cut inside the document: losing only the trailing white space leaves a valid document
            3 | 4 => Fault::InputTruncated { at: rng.below(doc.text.trim_end().len().max(1)) },
            5 => Fault::InputBadUtf8 { at: rng.below(len.max(1)) },
            6 => Fault::InputEmpty,
            7 => Fault::InputNotSchema,
            8 => Fault::FmtMissing,
            9 => Fault::FmtExit1,
            10 => Fault::FmtCloseStdin,
            11 => Fault::FmtKilled,
            12 => Fault::FmtSlow,
            13 => Fault::TmpdirMissing,
            14 if !is_stdout => Fault::OutOpen { errno: rng.pick(&["EACCES", "EROFS", "ENOSPC", "EMFILE"]).to_string() },
            15 if !is_stdout => Fault::OutDirMissing,
            16 | 14 | 15 => {
                let errno = rng.pick(&["ENOSPC", "EIO", "EDQUOT", "EPIPE"]).to_string();
                if is_stdout {
                    Fault::StdoutWrite { k: 1, errno }
                } else if rng.chance(1, 2) {
                    Fault::OutWrite { k: 1, errno }
                } else {
                    Fault::OutTornThenError { n: *rng.pick(&[1u32, 64, 1000]), k: rng.range(2, 5) as u32, errno }
                }
            }
            17 | 18 => {
                let n = *rng.pick(&[1u32, 7, 100, 4096]);
                if is_stdout {
                    Fault::StdoutShort { n }
                } else {
                    Fault::OutShort { n }
                }
            }
            _ => {
                if is_stdout {
                    Fault::StdoutShort { n: 512 }
                } else {
                    Fault::OutEintr { k: 1 }
                }
            }
        }
    };
    // OutDirMissing needs a target in a sub directory
    let out = if matches!(fault, Fault::OutDirMissing) {
        OutMode::File("missing/dir/types.rs".into())
    } else {
        out
    };
    CliRun {
        seed,
        doc_name: doc.name,
        doc: doc.text,
        input_name,
        options,
        out,
        preexisting_target: preexisting_target && !matches!(fault, Fault::OutDirMissing),
        absolute_input,
        hash_seed,
        env,
        fault,
        cwd_files: BTreeMap::new(),
    }
}


/// Re-encode a JSON document with a seeded permutation of the members of
/// every object and seeded white space: same content, different bytes.
pub fn reencode_json(text: &str, rng: &mut Rng) -> Option<String> {
    // serde_json (without preserve_order) sorts keys on parse, so the
    // permutation has to be produced while writing
    fn ws(rng: &mut Rng) -> &'static str {
        *rng.pick(&["", " ", "\n", "\n  ", "\t", "  "])
    }
    fn write(v: &serde_json::Value, rng: &mut Rng, out: &mut String) {
        match v {
            serde_json::Value::Object(m) => {
                let mut keys: Vec<&String> = m.keys().collect();
                rng.shuffle(&mut keys);
                out.push('{');
                for (i, k) in keys.iter().enumerate() {
                    if i > 0 {
                        out.push(',');
                    }
                    out.push_str(ws(rng));
                    out.push_str(&serde_json::to_string(k).unwrap());
                    out.push_str(ws(rng));
                    out.push(':');
                    out.push_str(ws(rng));
                    write(&m[*k], rng, out);
                }
                out.push_str(ws(rng));
                out.push('}');
            }
            serde_json::Value::Array(a) => {
                out.push('[');
                for (i, x) in a.iter().enumerate() {
                    if i > 0 {
                        out.push(',');
                    }
                    out.push_str(ws(rng));
                    write(x, rng, out);
                }
                out.push_str(ws(rng));
                out.push(']');
            }
            other => out.push_str(&serde_json::to_string(other).unwrap()),
        }
    }
    let v: serde_json::Value = serde_json::from_str(text).ok()?;
    let mut out = String::new();
    write(&v, rng, &mut out);
    out.push('\n');
    // same content?
    let back: serde_json::Value = serde_json::from_str(&out).ok()?;
    if back != v {
        return None;
    }
    Some(out)
}
