//! Per-property check driver for the session simulator: seeded batches over
//! 16 workers, violation grouping, minimisation, replay verification in a
//! fresh process, known-finding matching, evidence.

use std::collections::{BTreeMap, BTreeSet};
use std::path::PathBuf;
use std::time::Instant;

use serde_json::{json, Value};

use crate::desc::RunDesc;
use crate::exec::{self, Violation};
use crate::gen::{self, Focus};
use crate::prng::{derive_seed, fnv64};
use crate::report::{self, Evidence, ReplayFile};
use crate::shrink;

#[derive(Debug, Clone)]
pub struct Stage {
    pub name: &'static str,
    pub focus: Focus,
    pub faults: bool,
    pub runs: u64,
    pub stream: u64,
}

pub fn stages_for(property: &str, tier: &str) -> Vec<Stage> {
    let m: u64 = if tier == "thorough" { 10 } else { 1 };
    match property {
        "C16" => vec![
            Stage { name: "histories", focus: Focus::Histories, faults: false, runs: 5000 * m, stream: 1 },
            Stage { name: "histories+faults", focus: Focus::Histories, faults: true, runs: 3500 * m, stream: 2 },
            Stage { name: "fixtures", focus: Focus::Fixtures, faults: false, runs: 800 * m, stream: 8 },
        ],
        "C01" => vec![
            Stage { name: "compile", focus: Focus::Compile, faults: false, runs: 3000 * m, stream: 3 },
            Stage { name: "histories", focus: Focus::Histories, faults: false, runs: 1500 * m, stream: 4 },
            Stage { name: "fixtures", focus: Focus::Fixtures, faults: false, runs: 500 * m, stream: 9 },
        ],
        "C06" => vec![
            Stage { name: "defaults", focus: Focus::Defaults, faults: false, runs: 12000 * m, stream: 5 },
            Stage { name: "defaults+faults", focus: Focus::Defaults, faults: true, runs: 5000 * m, stream: 12 },
        ],
        "C07" => vec![
            Stage { name: "cycles", focus: Focus::Cycles, faults: false, runs: 8000 * m, stream: 6 },
        ],
        "C12" => {
            let mut v = vec![
                Stage { name: "hashkeys", focus: Focus::Determinism, faults: false, runs: 4500 * m, stream: 7 },
                Stage { name: "fixtures", focus: Focus::Fixtures, faults: false, runs: 700 * m, stream: 10 },
            ];
            if tier == "thorough" {
                // github.json and vega.json (about 0.5 s per simulated process)
                v.push(Stage { name: "fixtures-big", focus: Focus::FixturesBig, faults: false, runs: 16, stream: 11 });
            }
            v
        }
        _ => vec![],
    }
}

#[derive(Debug, Clone, serde::Serialize, serde::Deserialize)]
pub struct RunSummary {
    pub index: u64,
    pub seed: u64,
    pub shape: String,
    pub settings_digest: u64,
    pub violations: Vec<Violation>,
    pub probes: BTreeMap<String, u64>,
    pub log_digest: u64,
    pub steps: usize,
    pub ingestions_ok: usize,
    pub faults_fired: usize,
    pub canary: Vec<u32>,
    pub abstract_states: Vec<u64>,
    pub harness_error: Option<String>,
    pub has_variant: bool,
    #[serde(default)]
    pub hung: bool,
    /// final rendering of a clean session (only when the worker is asked to emit it)
    #[serde(default)]
    pub output: Option<String>,
    /// questions for the value stage (only with `emit`)
    #[serde(default)]
    pub value_probes: Vec<exec::ValueProbe>,
}

pub const RUN_TIMEOUT_S: u64 = 10;
/// a worker slice stops after this many hung runs (each costs RUN_TIMEOUT_S)
pub const MAX_HANGS_PER_SLICE: u32 = 3;

pub fn focus_name(f: Focus) -> &'static str {
    match f {
        Focus::Histories => "histories",
        Focus::Compile => "compile",
        Focus::Defaults => "defaults",
        Focus::Values => "values",
        Focus::Cycles => "cycles",
        Focus::Determinism => "determinism",
        Focus::Fixtures => "fixtures",
        Focus::FixturesBig => "fixtures-big",
    }
}

pub fn focus_of(s: &str) -> Focus {
    match s {
        "compile" => Focus::Compile,
        "defaults" => Focus::Defaults,
        "values" => Focus::Values,
        "cycles" => Focus::Cycles,
        "determinism" => Focus::Determinism,
        "fixtures" => Focus::Fixtures,
        "fixtures-big" => Focus::FixturesBig,
        _ => Focus::Histories,
    }
}

pub fn run_one(seed: u64, focus: Focus, faults: bool, index: u64) -> (RunDesc, RunSummary) {
    run_one_emit(seed, focus, faults, index, false)
}

pub fn run_one_emit(seed: u64, focus: Focus, faults: bool, index: u64, emit: bool) -> (RunDesc, RunSummary) {
    let desc = gen::generate(seed, focus, faults);
    // an H5 run converts its history 40 times in one simulated process: its deadline
    // is scaled, so that a loaded machine does not turn long sessions into "hangs"
    let deadline = if desc.variant.as_ref().map(|v| v.relation == "H5").unwrap_or(false) { 12 * RUN_TIMEOUT_S } else { RUN_TIMEOUT_S };
    let (out, hung) = exec::execute_watched(&desc, std::time::Duration::from_secs(deadline));
    let settings_digest = fnv64(serde_json::to_string(&desc.settings).unwrap().as_bytes());
    let summary = RunSummary {
        index,
        seed,
        shape: desc.shape(),
        settings_digest,
        log_digest: out.log_digest(),
        steps: out.events.len(),
        ingestions_ok: out.ingestions_ok,
        faults_fired: out.faults_fired,
        canary: out.canary.clone(),
        abstract_states: out.abstract_states.clone(),
        harness_error: out.harness_error.clone(),
        has_variant: desc.variant.is_some(),
        output: if emit && out.violations.is_empty() { out.final_output.clone() } else { None },
        value_probes: if emit && out.violations.is_empty() { out.value_probes.clone() } else { Vec::new() },
        violations: out.violations,
        probes: out.probes,
        hung,
    };
    (desc, summary)
}

/// Worker process body: runs indices from, from+stride, ... and prints one
/// `R <json>` line per run. After a hung run the process exits with code 3
/// (the abandoned thread still spins); the supervisor restarts it.
pub fn worker(base_seed: u64, stream: u64, focus: Focus, faults: bool, from: u64, stride: u64, runs: u64, emit: bool) -> i32 {
    use std::io::Write;
    let stdout = std::io::stdout();
    let mut i = from;
    while i < runs {
        let seed = derive_seed(base_seed, stream, i);
        let (_d, s) = run_one_emit(seed, focus, faults, i, emit);
        let hung = s.hung;
        let mut lock = stdout.lock();
        let _ = writeln!(lock, "R {}", serde_json::to_string(&s).unwrap());
        let _ = lock.flush();
        drop(lock);
        if hung {
            return 3;
        }
        i += stride;
    }
    0
}

/// Supervisor: `workers` OS processes, each a deterministic slice of the
/// stage's indices; results merged in index order.
pub fn run_stage(base_seed: u64, stage: &Stage, workers: usize) -> Result<Vec<RunSummary>, String> {
    run_stage_emit(base_seed, stage, workers, false)
}

pub fn run_stage_emit(base_seed: u64, stage: &Stage, workers: usize, emit: bool) -> Result<Vec<RunSummary>, String> {
    use std::io::{BufRead, BufReader};
    use std::process::{Command, Stdio};
    let exe = std::env::current_exe().map_err(|e| e.to_string())?;
    let mut all: Vec<RunSummary> = Vec::with_capacity(stage.runs as usize);
    let mut errors: Vec<String> = Vec::new();
    std::thread::scope(|sc| {
        let mut handles = Vec::new();
        for w in 0..workers {
            let stage = stage.clone();
            let exe = exe.clone();
            handles.push(sc.spawn(move || -> Result<Vec<RunSummary>, String> {
                let mut mine: Vec<RunSummary> = Vec::new();
                let mut next = w as u64;
                let stride = workers as u64;
                let mut restarts = 0;
                while next < stage.runs {
                    let mut child = Command::new(&exe)
                        .arg("worker")
                        .arg("--base").arg(base_seed.to_string())
                        .arg("--stream").arg(stage.stream.to_string())
                        .arg("--focus").arg(focus_name(stage.focus))
                        .arg("--faults").arg(if stage.faults { "1" } else { "0" })
                        .arg("--from").arg(next.to_string())
                        .arg("--stride").arg(stride.to_string())
                        .arg("--runs").arg(stage.runs.to_string())
                        .arg("--emit").arg(if emit { "1" } else { "0" })
                        .stdout(Stdio::piped())
                        .stderr(Stdio::null())
                        .spawn()
                        .map_err(|e| format!("spawn worker: {e}"))?;
                    let reader = BufReader::new(child.stdout.take().unwrap());
                    for line in reader.lines() {
                        let line = line.map_err(|e| e.to_string())?;
                        if let Some(j) = line.strip_prefix("R ") {
                            let s: RunSummary = serde_json::from_str(j).map_err(|e| format!("worker line: {e}"))?;
                            next = s.index + stride;
                            mine.push(s);
                        }
                    }
                    let status = child.wait().map_err(|e| e.to_string())?;
                    match status.code() {
                        Some(0) => break,
                        Some(3) => {
                            restarts += 1;
                            if restarts >= MAX_HANGS_PER_SLICE {
                                // every hung run is already reported; the rest of
                                // this slice is skipped (the stage is truncated)
                                break;
                            }
                        }
                        other => {
                            // The worker was taken down while executing index `next`
                            // (typify overflowed the stack or aborted). Find out where:
                            // the same seed in a probe process that prints progress marks.
                            let seed = derive_seed(base_seed, stage.stream, next);
                            let probe = Command::new(&exe)
                                .arg("crashprobe")
                                .arg(focus_name(stage.focus))
                                .arg(if stage.faults { "1" } else { "0" })
                                .arg(seed.to_string())
                                .env("VERIF_TRACE_PROGRESS", "1")
                                .stdout(Stdio::null())
                                .stderr(Stdio::piped())
                                .output()
                                .map_err(|e| format!("spawn crash probe: {e}"))?;
                            if probe.status.code() == Some(0) {
                                return Err(format!(
                                    "worker {w} died with {other:?} at index {next} (seed {seed}) but the crash does not reproduce in a probe process"
                                ));
                            }
                            let err = String::from_utf8_lossy(&probe.stderr).to_string();
                            let last = err.lines().rev().find(|l| l.starts_with("PROGRESS ")).unwrap_or("PROGRESS 0 0 1 0").to_string();
                            let f: Vec<u64> = last.split(' ').skip(1).filter_map(|x| x.parse().ok()).collect();
                            let (step, phase, clean) = (f.first().copied().unwrap_or(0), f.get(1).copied().unwrap_or(0), f.get(2).copied().unwrap_or(1) == 1);
                            let phase_name = match phase {
                                exec::PHASE_CALL => "call",
                                exec::PHASE_RENDER => "render",
                                exec::PHASE_INSPECT => "inspect",
                                exec::PHASE_SNAPSHOT => "snapshot",
                                _ => "model",
                            };
                            let reason = if err.contains("overflowed its stack") { "stack-overflow" } else { "abort" };
                            let desc = gen::generate(seed, stage.focus, stage.faults);
                            let mut sum = RunSummary {
                                index: next,
                                seed,
                                shape: desc.shape(),
                                settings_digest: 0,
                                violations: Vec::new(),
                                probes: BTreeMap::new(),
                                log_digest: 0,
                                steps: step as usize,
                                ingestions_ok: 0,
                                faults_fired: 0,
                                canary: Vec::new(),
                                abstract_states: Vec::new(),
                                harness_error: None,
                                has_variant: desc.variant.is_some(),
                                hung: true,
                                output: None,
                                value_probes: Vec::new(),
                            };
                            if clean {
                                sum.violations.push(Violation {
                                    invariant: "I3".into(),
                                    key: format!("process-crash:{reason}:{phase_name}"),
                                    step: step as usize,
                                    observed: format!("the simulated process was killed ({reason}, exit {other:?}) in phase {phase_name} of step {step}, all calls so far had succeeded"),
                                    expected: "after successful ingestion the library returns from every call".into(),
                                });
                            } else {
                                sum.probes.insert(format!("post_fault_crash.{phase_name}"), 1);
                            }
                            mine.push(sum);
                            next += stride;
                            restarts += 1;
                            if restarts >= MAX_HANGS_PER_SLICE {
                                break;
                            }
                        }
                    }
                }
                Ok(mine)
            }));
        }
        for h in handles {
            match h.join().expect("supervisor thread") {
                Ok(v) => all.extend(v),
                Err(e) => errors.push(e),
            }
        }
    });
    if !errors.is_empty() {
        return Err(errors.join("; "));
    }
    all.sort_by_key(|s| s.index);
    let hung = all.iter().filter(|s| s.hung).count();
    if all.len() as u64 != stage.runs && hung == 0 {
        return Err(format!("stage {}: expected {} results, got {}", stage.name, stage.runs, all.len()));
    }
    Ok(all)
}

pub struct CheckResult {
    pub exit_code: i32,
}

/// Minimise in a child process: a candidate can drive typify into a stack
/// overflow, which must not take the check down. If the child dies the
/// unminimised run is reported.
fn shrink_in_child(desc: &RunDesc, target: &shrink::Target) -> (RunDesc, shrink::ShrinkStats) {
    let work = report::verif_root().join(".work");
    let _ = std::fs::create_dir_all(&work);
    let tag = format!("{}-{:x}", std::process::id(), fnv64(format!("{}{}{}", target.0, target.1, desc.seed).as_bytes()));
    let inp = work.join(format!("shrink-in-{tag}.json"));
    let outp = work.join(format!("shrink-out-{tag}.json"));
    let fallback = (desc.clone(), shrink::ShrinkStats { executions: 0, accepted: 0 });
    if std::fs::write(&inp, serde_json::to_string(&json!({"desc": desc, "invariant": target.0, "key": target.1})).unwrap()).is_err() {
        return fallback;
    }
    let exe = match std::env::current_exe() {
        Ok(e) => e,
        Err(_) => return fallback,
    };
    let st = std::process::Command::new(exe).arg("shrink").arg(&inp).arg(&outp).stderr(std::process::Stdio::null()).status();
    let result = match st {
        Ok(s) if s.success() => std::fs::read_to_string(&outp)
            .ok()
            .and_then(|t| serde_json::from_str::<Value>(&t).ok())
            .and_then(|v| {
                let d: RunDesc = serde_json::from_value(v.get("desc")?.clone()).ok()?;
                let execs = v.get("executions")?.as_u64()? as usize;
                Some((d, shrink::ShrinkStats { executions: execs, accepted: 0 }))
            })
            .unwrap_or(fallback),
        _ => fallback,
    };
    let _ = std::fs::remove_file(&inp);
    let _ = std::fs::remove_file(&outp);
    result
}

/// Body of the `shrink` subcommand (see `shrink_in_child`).
pub fn shrink_cmd(inp: &str, outp: &str) -> i32 {
    let Ok(text) = std::fs::read_to_string(inp) else { return 2 };
    let Ok(v) = serde_json::from_str::<Value>(&text) else { return 2 };
    let Ok(desc) = serde_json::from_value::<RunDesc>(v["desc"].clone()) else { return 2 };
    let target = (
        v["invariant"].as_str().unwrap_or("").to_string(),
        v["key"].as_str().unwrap_or("").to_string(),
    );
    let (min, stats) = shrink::shrink(&desc, &target, 1500);
    let out = json!({"desc": min, "executions": stats.executions});
    if std::fs::write(outp, serde_json::to_string(&out).unwrap()).is_err() {
        return 2;
    }
    0
}

fn replay_in_fresh_process(path: &PathBuf) -> Result<(i32, String), String> {
    let exe = std::env::current_exe().map_err(|e| e.to_string())?;
    let out = std::process::Command::new(exe)
        .arg("replay")
        .arg(path)
        .output()
        .map_err(|e| e.to_string())?;
    Ok((
        out.status.code().unwrap_or(-1),
        String::from_utf8_lossy(&out.stdout).to_string(),
    ))
}

/// Replay command: exit 1 and a VIOLATION line when the stored violation
/// reproduces, exit 0 when it does not (e.g. after a fix), 2 on harness error.
pub fn replay(path: &str) -> i32 {
    let text = match std::fs::read_to_string(path) {
        Ok(t) => t,
        Err(e) => {
            eprintln!("HARNESS: cannot read {path}: {e}");
            return 2;
        }
    };
    let r: ReplayFile = match serde_json::from_str(&text) {
        Ok(r) => r,
        Err(e) => {
            eprintln!("HARNESS: {path} is not a sessim replay file: {e}");
            return 2;
        }
    };
    if r.engine == "sessim-value" {
        return value_replay(&r);
    }
    if r.engine == "sessim-rustc" {
        return rustc_replay(&r);
    }
    if r.finding_key.starts_with("process-crash") && std::env::var("VERIF_REPLAY_CHILD").is_err() {
        // the history takes the process down: execute it in a child and look at how it ends
        let exe = std::env::current_exe().expect("current exe");
        let st = std::process::Command::new(exe)
            .arg("replay")
            .arg(path)
            .env("VERIF_REPLAY_CHILD", "1")
            .stdout(std::process::Stdio::null())
            .stderr(std::process::Stdio::piped())
            .output();
        return match st {
            Ok(o) if o.status.code().is_none() || o.status.code() == Some(134) => {
                let err = String::from_utf8_lossy(&o.stderr).to_string();
                println!(
                    "REPRODUCED I3 {}: child process killed ({:?}) {}",
                    r.finding_key,
                    o.status,
                    err.lines().find(|l| l.contains("overflowed")).unwrap_or("")
                );
                println!("VIOLATION property={} replay={}", r.property, path);
                1
            }
            Ok(o) => {
                println!("NOT-REPRODUCED {} (child exit {:?})", r.finding_key, o.status.code());
                0
            }
            Err(e) => {
                eprintln!("HARNESS: {e}");
                2
            }
        };
    }
    let (out, _hung) = exec::execute_watched(&r.run, std::time::Duration::from_secs(RUN_TIMEOUT_S));
    if let Some(h) = out.harness_error {
        eprintln!("HARNESS: {h}");
        return 2;
    }
    for e in &out.events {
        println!("step {:>4} {:<24} {:<28} digest={:016x}", e.step, e.op, e.result, e.digest);
    }
    let hit = out
        .violations
        .iter()
        .find(|v| v.invariant == r.invariant && v.key == r.finding_key);
    match hit {
        Some(v) => {
            println!("REPRODUCED {} {} at step {}: {}", v.invariant, v.key, v.step, v.observed);
            println!("VIOLATION property={} replay={}", r.property, path);
            1
        }
        None => {
            println!("NOT-REPRODUCED {} {}", r.invariant, r.finding_key);
            for v in &out.violations {
                println!("  (other violation: {} {} : {})", v.invariant, v.key, v.observed);
            }
            0
        }
    }
}

pub fn check(property: &str, tier: &str, base_seed: u64, workers: usize, runs_override: Option<u64>) -> CheckResult {
    let t0 = Instant::now();
    let mut stages = stages_for(property, tier);
    // maintenance aid: VERIF_ONLY_RUSTC=1 runs just the rustc stage (to sweep many seeds for rare compile errors)
    let only_rustc = std::env::var("VERIF_ONLY_RUSTC").is_ok();
    if only_rustc {
        stages.truncate(1);
        stages[0].runs = 16;
    }
    if stages.is_empty() {
        eprintln!("HARNESS: sessim has no check for property {property}");
        return CheckResult { exit_code: 2 };
    }
    if let Some(n) = runs_override {
        for s in stages.iter_mut() {
            s.runs = n;
        }
    }
    println!("VERIF_SEED={base_seed} property={property} tier={tier} engine=sessim workers={workers}");
    let known = report::load_known_findings();
    let mut total_runs = 0u64;
    let mut steps_total = 0u64;
    let mut distinct: BTreeSet<(String, u64)> = BTreeSet::new();
    let mut shapes: BTreeSet<String> = BTreeSet::new();
    let mut abstract_states: BTreeSet<u64> = BTreeSet::new();
    let mut canaries: BTreeSet<Vec<u32>> = BTreeSet::new();
    let mut probes: BTreeMap<String, u64> = BTreeMap::new();
    let mut relations: BTreeMap<String, u64> = BTreeMap::new();
    let mut groups: BTreeMap<(String, String), (u64, usize, u64)> = BTreeMap::new(); // (inv,key) -> (first seed, stage idx, count)
    let mut other_property_hits: BTreeMap<String, u64> = BTreeMap::new();
    let mut samples: Vec<Value> = Vec::new();
    let mut harness_errors: Vec<String> = Vec::new();
    let mut stage_info = Vec::new();
    let mut first_seed = None;
    let mut hung_total = 0u64;
    let mut truncated_total = 0u64;

    for (si, stage) in stages.iter().enumerate() {
        let ts = Instant::now();
        let res = match run_stage(base_seed, stage, workers) {
            Ok(r) => r,
            Err(e) => {
                eprintln!("HARNESS: {e}");
                return CheckResult { exit_code: 2 };
            }
        };
        // determinism spot check: the first runs again, in two other worker
        // processes (a different partition of the indices)
        let n_again = std::cmp::min(48, res.len()) as u64;
        if n_again > 0 {
            let again_stage = Stage { runs: n_again, ..stage.clone() };
            match run_stage(base_seed, &again_stage, 2) {
                Ok(again) => {
                    for (a, b) in again.iter().zip(res.iter()) {
                        if a.index == b.index && !a.hung && !b.hung && a.log_digest != b.log_digest {
                            harness_errors.push(format!(
                                "non-deterministic run: stage {} seed {} digests {:x} vs {:x}",
                                stage.name, b.seed, b.log_digest, a.log_digest
                            ));
                        }
                    }
                }
                Err(e) => harness_errors.push(format!("determinism re-run: {e}")),
            }
        }
        for s in &res {
            if first_seed.is_none() {
                first_seed = Some(s.seed);
            }
            total_runs += 1;
            steps_total += s.steps as u64;
            if let Some(h) = &s.harness_error {
                harness_errors.push(format!("seed {}: {h}", s.seed));
            }
            let nontrivial = s.ingestions_ok >= 2 || s.faults_fired >= 1;
            if nontrivial {
                distinct.insert((s.shape.clone(), s.settings_digest));
            }
            shapes.insert(s.shape.clone());
            abstract_states.extend(s.abstract_states.iter().copied());
            canaries.insert(s.canary.clone());
            for (k, c) in &s.probes {
                *probes.entry(k.clone()).or_insert(0) += c;
                if let Some(r) = k.strip_prefix("variant_run.") {
                    *relations.entry(r.to_string()).or_insert(0) += c;
                }
            }
            for v in &s.violations {
                let props = report::properties_of(v);
                if props.contains(&property) {
                    let e = groups
                        .entry((v.invariant.clone(), v.key.clone()))
                        .or_insert((s.seed, si, 0));
                    e.2 += 1;
                } else {
                    for p in props {
                        *other_property_hits.entry(format!("{p}:{}:{}", v.invariant, v.key)).or_insert(0) += 1;
                    }
                }
            }
        }
        // a few sample histories, written out
        for s in res.iter().filter(|s| s.ingestions_ok >= 2).take(2) {
            let d = gen::generate(s.seed, stage.focus, stage.faults);
            samples.push(json!({
                "stage": stage.name,
                "seed": s.seed,
                "shape": s.shape,
                "settings": d.settings,
                "ops": d.ops.iter().map(|o| {
                    let mut v = serde_json::to_value(o).unwrap();
                    // keep samples readable: long schema bodies are elided to their key list
                    if let Some(defs) = v.get_mut("defs").and_then(|d| d.as_array_mut()) {
                        for d in defs.iter_mut() {
                            let text = d[1].to_string();
                            if text.len() > 240 {
                                d[1] = json!(format!("{}…", &text[..240]));
                            }
                        }
                    }
                    if let Some(doc) = v.get_mut("doc") {
                        let text = doc.to_string();
                        if text.len() > 400 {
                            *doc = json!(format!("{}…", &text[..400]));
                        }
                    }
                    v
                }).collect::<Vec<_>>(),
                "relation": d.variant.as_ref().map(|v| v.relation.clone()),
            }));
        }
        let hung_here = res.iter().filter(|s| s.hung).count();
        hung_total += hung_here as u64;
        truncated_total += stage.runs.saturating_sub(res.len() as u64);
        stage_info.push(json!({
            "stage": stage.name,
            "faults": stage.faults,
            "runs": res.len(),
            "runs_planned": stage.runs,
            "runs_hung": hung_here,
            "wall_s": ts.elapsed().as_secs_f64(),
        }));
    }

    if !harness_errors.is_empty() {
        for h in harness_errors.iter().take(10) {
            eprintln!("HARNESS: {h}");
        }
        return CheckResult { exit_code: 2 };
    }

    // ----- rustc stage (C01, C07): real type checking of final outputs -----
    let mut rustc_modules = 0usize;
    let mut rustc_wall = 0.0f64;
    let mut rustc_observed: BTreeMap<(String, String), String> = BTreeMap::new();
    if (property == "C01" || property == "C07") && runs_override.map(|r| r >= 100).unwrap_or(true) {
        let big = tier == "thorough";
        let mut rstages = vec![Stage {
            name: "rustc",
            focus: if property == "C07" { Focus::Cycles } else { Focus::Compile },
            faults: false,
            runs: if big { 600 } else { 64 },
            stream: if property == "C07" { 41 } else { 40 },
        }];
        if property == "C01" {
            rstages.push(Stage { name: "rustc-fixtures", focus: Focus::Fixtures, faults: false, runs: if big { 200 } else { 24 }, stream: 42 });
        }
        for rstage in rstages {
            let n = rstage.runs;
            match rustc_stage(base_seed, &rstage, workers) {
                Ok((found, n_mod, wall)) => {
                    rustc_modules += n_mod;
                    rustc_wall += wall;
                    stages.push(rstage);
                    let si = stages.len() - 1;
                    for (seed, v) in found {
                        if report::properties_of(&v).contains(&property) {
                            rustc_observed.entry((v.invariant.clone(), v.key.clone())).or_insert(v.observed.clone());
                            let e = groups.entry((v.invariant.clone(), v.key.clone())).or_insert((seed, si, 0));
                            e.2 += 1;
                        }
                    }
                    total_runs += n;
                }
                Err(e) => {
                    eprintln!("HARNESS: rustc stage: {e}");
                    return CheckResult { exit_code: 2 };
                }
            }
        }
    }

    // ----- value stage (C06): the compiled output is RUN and its defaults compared -----
    let mut value_modules = 0usize;
    let mut value_wall = 0.0f64;
    if property == "C06" && runs_override.map(|r| r >= 100).unwrap_or(true) {
        let vstage = Stage { name: "values", focus: Focus::Values, faults: false, runs: if tier == "thorough" { 2000 } else { 260 }, stream: 43 };
        let n = vstage.runs;
        match value_stage(base_seed, &vstage, workers) {
            Ok((found, n_mod, counts, wall)) => {
                value_modules += n_mod;
                value_wall += wall;
                stages.push(vstage);
                let si = stages.len() - 1;
                for (k, c) in counts {
                    *probes.entry(k).or_insert(0) += c;
                }
                for (seed, v) in found {
                    if report::properties_of(&v).contains(&property) {
                        rustc_observed.entry((v.invariant.clone(), v.key.clone())).or_insert(v.observed.clone());
                        let e = groups.entry((v.invariant.clone(), v.key.clone())).or_insert((seed, si, 0));
                        e.2 += 1;
                    }
                }
                total_runs += n;
            }
            Err(e) => {
                eprintln!("HARNESS: value stage: {e}");
                return CheckResult { exit_code: 2 };
            }
        }
    }

    // ----- triage of violation groups -----
    let mut exit_code = 0;
    let mut n_violations = 0u64;
    let mut known_lines: BTreeSet<String> = BTreeSet::new();
    let mut processed = 0;
    for ((inv, key), (seed, si, count)) in &groups {
        // exact key already known: no need to shrink
        if let Some(k) = report::match_known(&known, property, inv, key) {
            known_lines.insert(format!("KNOWN-FINDING: property={property} {}:{} — {} ({} runs)", inv, key, k.what, count));
            continue;
        }
        processed += 1;
        if processed > 12 {
            // still a violation; reported unshrunk so that nothing is hidden
            println!("note: more than 12 distinct new finding keys; {inv}:{key} reported without minimisation");
        }
        let stage = &stages[*si];
        let desc = gen::generate(*seed, stage.focus, stage.faults);
        if inv == "I11" || inv == "I12" {
            // decided by rustc, not by the in-process oracles: no minimisation,
            // the replay regenerates the module and runs cargo check on it
            let rf = ReplayFile {
                property: property.to_string(),
                engine: if inv == "I12" { "sessim-value".into() } else { "sessim-rustc".into() },
                invariant: inv.clone(),
                finding_key: key.clone(),
                observed: rustc_observed.get(&(inv.clone(), key.clone())).cloned().unwrap_or_default(),
                expected: if inv == "I12" { "the realised default serialises to the schema's default".into() } else { "the emitted module type-checks".into() },
                step: desc.ops.len(),
                original_seed: *seed,
                shrink_executions: 0,
                run: desc,
            };
            let dir = report::verif_root().join("replays");
            let path = match report::write_replay(&dir, &rf) {
                Ok(p) => p,
                Err(e) => {
                    eprintln!("HARNESS: cannot write replay: {e}");
                    return CheckResult { exit_code: 2 };
                }
            };
            match replay_in_fresh_process(&path) {
                Ok((1, text)) if text.contains("REPRODUCED") => {
                    n_violations += 1;
                    exit_code = 1;
                    println!("violation {inv}:{key} ({count} modules, first seed {seed}): {}", rf.observed);
                    println!("VIOLATION property={property} replay={}", path.display());
                }
                Ok((code, text)) => {
                    eprintln!("HARNESS: rustc replay of {} did not reproduce (exit {code}):\n{text}", path.display());
                    return CheckResult { exit_code: 2 };
                }
                Err(e) => {
                    eprintln!("HARNESS: cannot spawn replay: {e}");
                    return CheckResult { exit_code: 2 };
                }
            }
            continue;
        }
        let target = (inv.clone(), key.clone());
        let is_crash = key.starts_with("process-crash");
        let (min, stats) = if processed > 12 || is_crash {
            (desc.clone(), shrink::ShrinkStats { executions: 0, accepted: 0 })
        } else {
            shrink_in_child(&desc, &target)
        };
        let crash_violation = Violation {
            invariant: inv.clone(),
            key: key.clone(),
            step: 0,
            observed: "the simulated process is killed while executing this history (see the replay)".into(),
            expected: "after successful ingestion the library returns from every call".into(),
        };
        let (out, _hung) = if is_crash {
            (exec::Outcome { violations: vec![crash_violation], ..Default::default() }, false)
        } else {
            exec::execute_watched(&min, std::time::Duration::from_secs(RUN_TIMEOUT_S))
        };
        let Some(v) = out.violations.iter().find(|v| v.invariant == *inv && v.key == *key) else {
            eprintln!("HARNESS: minimised run for {inv}:{key} (seed {seed}) does not reproduce in-process");
            return CheckResult { exit_code: 2 };
        };
        let rf = ReplayFile {
            property: property.to_string(),
            engine: "sessim".into(),
            invariant: inv.clone(),
            finding_key: key.clone(),
            observed: v.observed.clone(),
            expected: v.expected.clone(),
            step: v.step,
            original_seed: *seed,
            shrink_executions: stats.executions,
            run: min,
        };
        let dir = report::verif_root().join("replays");
        let path = match report::write_replay(&dir, &rf) {
            Ok(p) => p,
            Err(e) => {
                eprintln!("HARNESS: cannot write replay: {e}");
                return CheckResult { exit_code: 2 };
            }
        };
        match replay_in_fresh_process(&path) {
            Ok((1, text)) if text.contains("REPRODUCED") => {
                n_violations += 1;
                exit_code = 1;
                println!("violation {inv}:{key} ({count} runs, first seed {seed}, {} shrink executions): {}", stats.executions, v.observed);
                println!("VIOLATION property={property} replay={}", path.display());
            }
            Ok((code, text)) => {
                eprintln!("HARNESS: replay of {} in a fresh process did not reproduce (exit {code}):\n{text}", path.display());
                return CheckResult { exit_code: 2 };
            }
            Err(e) => {
                eprintln!("HARNESS: cannot spawn replay: {e}");
                return CheckResult { exit_code: 2 };
            }
        }
    }
    for l in &known_lines {
        println!("{l}");
    }

    // ----- evidence -----
    let wall = t0.elapsed().as_secs_f64();
    let mut fault_kinds = serde_json::Map::new();
    let mut post_fault = serde_json::Map::new();
    let mut other_probes = serde_json::Map::new();
    for (k, c) in &probes {
        if let Some(f) = k.strip_prefix("fault_fired.") {
            fault_kinds.insert(f.to_string(), json!(c));
        } else if let Some(f) = k.strip_prefix("post_fault_render.") {
            post_fault.insert(f.to_string(), json!(c));
        } else {
            other_probes.insert(k.clone(), json!(c));
        }
    }
    let mut ev = Evidence {
        property_id: property.to_string(),
        tier: tier.to_string(),
        seed: base_seed,
        level: "exploration".into(),
        evaluations: total_runs,
        distinct_nontrivial: distinct.len() as u64,
        rule: "one evaluation = one simulated client session (seed -> swarm config, settings, hash key, components, history of TypeSpace API calls, optional poisoned call, optional second session for a history relation) executed against the real typify_impl::TypeSpace; a run is non-trivial when at least two ingestion calls succeeded or at least one injected fault fired; distinct = distinct (history shape, settings digest) pairs among the non-trivial runs, counted in a set".into(),
        samples,
        wall_s: wall,
        violations: n_violations,
        assumptions: vec![
            "structural oracle (syn parse, duplicate items/fields/variants/impl headers, unresolved paths, by-value containment cycles) stands in for rustc after every step; rustc itself sees the final outputs of a sample of clean sessions (rustc stage of C01/C07, value stage of C06)".into(),
            "validity of defaults is decided by the harness's own draft-07 validator for the generated fragment (cross-checked against python jsonschema by `verif selftest`)".into(),
            "hash seeds are owned through the process-local getrandom symbol; address-space layout is not controlled".into(),
        ],
        extra: BTreeMap::new(),
    };
    ev.extra.insert("engine".into(), json!("sessim"));
    ev.extra.insert("stages".into(), json!(stage_info));
    ev.extra.insert("runs_per_hour".into(), json!((total_runs as f64 / wall * 3600.0) as u64));
    ev.extra.insert("seeds".into(), json!({"base": base_seed, "first_run_seed": first_seed, "count": total_runs}));
    ev.extra.insert("steps_total".into(), json!(steps_total));
    ev.extra.insert("simulated_time".into(), json!("typify has no clock; simulated time is reported as API steps (steps_total)"));
    ev.extra.insert("fault_kinds_fired".into(), Value::Object(fault_kinds));
    ev.extra.insert("post_fault_render".into(), Value::Object(post_fault));
    ev.extra.insert("probes".into(), Value::Object(other_probes));
    ev.extra.insert("relations_run".into(), json!(relations));
    ev.extra.insert("distinct_history_shapes".into(), json!(shapes.len()));
    ev.extra.insert("distinct_abstract_states".into(), json!(abstract_states.len()));
    ev.extra.insert("distinct_canary_orders".into(), json!(canaries.len()));
    ev.extra.insert("finding_groups".into(), json!(groups.iter().map(|((i, k), (s, _, c))| json!({"invariant": i, "key": k, "first_seed": s, "runs": c})).collect::<Vec<_>>()));
    ev.extra.insert("violations_of_other_properties_seen".into(), json!(other_property_hits));
    ev.extra.insert("known_findings_matched".into(), json!(known_lines.len()));
    ev.extra.insert("rustc_checked_modules".into(), json!(rustc_modules));
    ev.extra.insert("rustc_stage_wall_s".into(), json!(rustc_wall));
    ev.extra.insert("value_stage_modules_built_and_run".into(), json!(value_modules));
    ev.extra.insert("value_stage_wall_s".into(), json!(value_wall));
    ev.extra.insert("components_real".into(), json!(["typify_impl::TypeSpace (all conversion, merging, cycle breaking, finalisation, rendering, introspection)", "schemars / serde_json parsing", "syn parse of the output", "std HashMap/HashSet with SipHash keyed by the simulator"]));
    ev.extra.insert("components_stub".into(), json!(["the client (the simulator plays the build script / progenitor)", "rustc: real `cargo check` only in the rustc stage of C01/C07 (rustc_checked_modules) and real `cargo build` + execution of the generated code only in the value stage of C06 (value_stage_modules_built_and_run); the structural oracle stands in for it after every step"]));
    if let Err(e) = ev.write() {
        eprintln!("HARNESS: cannot write evidence: {e}");
        return CheckResult { exit_code: 2 };
    }
    if hung_total > 0 || truncated_total > 0 {
        println!("note: {hung_total} run(s) exceeded the watchdog and {truncated_total} planned run(s) were not executed (a slice stops after {MAX_HANGS_PER_SLICE} hangs)");
    }
    println!(
        "{} runs, {} steps, {} distinct non-trivial histories, {} abstract states, {} canary orders, {:.1}s; {} new violation(s), {} known finding(s)",
        total_runs,
        steps_total,
        distinct.len(),
        abstract_states.len(),
        canaries.len(),
        wall,
        n_violations,
        known_lines.len()
    );
    CheckResult { exit_code }
}

/// `verif selftest`: (1) the hash-seed seam works and is repeatable, (2) every
/// run is a pure function of its seed — the same seeds at two worker counts
/// give identical event-log digests, (3) the model's validator agrees with
/// python jsonschema on generated (schema, instance) pairs.
pub fn selftest(quick: bool) -> i32 {
    use crate::hashseed;
    // (1) seam
    let mut orders = BTreeSet::new();
    for key in 1..=8u64 {
        let a = hashseed::run_simulated_process(key, 0, hashseed::canary).unwrap();
        let b = hashseed::run_simulated_process(key, 0, hashseed::canary).unwrap();
        if a != b {
            eprintln!("HARNESS: hash-seed seam is not repeatable (key {key}: {a:?} vs {b:?})");
            return 2;
        }
        orders.insert(a);
    }
    if orders.len() < 4 {
        eprintln!("HARNESS: hash-seed seam does not perturb iteration order ({} distinct orders for 8 keys)", orders.len());
        return 2;
    }
    println!("selftest: seam ok ({} distinct canary orders for 8 keys, each repeatable)", orders.len());
    // (2) determinism
    let n: u64 = if quick { 250 } else { 2000 };
    let mut total = 0;
    for (i, (focus, faults)) in [
        (Focus::Histories, false),
        (Focus::Histories, true),
        (Focus::Compile, false),
        (Focus::Defaults, false),
        (Focus::Cycles, false),
        (Focus::Determinism, false),
    ]
    .iter()
    .enumerate()
    {
        let stage = Stage { name: "selftest", focus: *focus, faults: *faults, runs: n, stream: 100 + i as u64 };
        let a = match run_stage(777, &stage, 16) {
            Ok(a) => a,
            Err(e) => {
                eprintln!("HARNESS: {e}");
                return 2;
            }
        };
        let b = match run_stage(777, &stage, 3) {
            Ok(b) => b,
            Err(e) => {
                eprintln!("HARNESS: {e}");
                return 2;
            }
        };
        for (x, y) in a.iter().zip(b.iter()) {
            if x.seed != y.seed || x.log_digest != y.log_digest {
                if x.hung || y.hung {
                    continue;
                }
                eprintln!(
                    "HARNESS: nondeterministic run: focus {} faults {} seed {} digests {:x} / {:x}",
                    focus_name(*focus), faults, x.seed, x.log_digest, y.log_digest
                );
                return 2;
            }
        }
        total += a.len();
    }
    println!("selftest: determinism ok ({total} runs, each executed at 16 and at 3 workers, event-log digests identical)");
    // (3) model cross-check
    let work = report::verif_root().join(".work");
    let _ = std::fs::create_dir_all(&work);
    let path = work.join("xcheck.jsonl");
    let mut lines = String::new();
    let mut cases = 0;
    let want = if quick { 600 } else { 3000 };
    let mut seed = 0u64;
    while cases < want {
        seed += 1;
        let d = gen::generate(derive_seed(4242, 9, seed), Focus::Defaults, false);
        for op in &d.ops {
            let (defs, schemas): (crate::model::Defs, Vec<Value>) = match op {
                crate::desc::Op::AddRefTypes { defs, .. } => (
                    defs.iter().cloned().collect(),
                    defs.iter().map(|d| d.1.clone()).collect(),
                ),
                _ => continue,
            };
            for s in &schemas {
                for site in crate::model::default_sites(s, "#", &defs) {
                    let mut stripped = site.schema.clone();
                    if let Some(o) = stripped.as_object_mut() {
                        o.remove("default");
                    }
                    lines.push_str(&serde_json::to_string(&json!({
                        "schema": stripped, "defs": defs, "instance": site.value, "verdict": site.valid
                    })).unwrap());
                    lines.push('\n');
                    cases += 1;
                }
            }
        }
        if seed > 200000 {
            break;
        }
    }
    if std::fs::write(&path, lines).is_err() {
        eprintln!("HARNESS: cannot write {}", path.display());
        return 2;
    }
    let script = report::verif_root().join("sim").join("xcheck.py");
    match std::process::Command::new("python3-vt").arg(&script).arg(&path).output() {
        Ok(o) => {
            print!("selftest: {}", String::from_utf8_lossy(&o.stdout));
            if !o.status.success() {
                eprintln!("HARNESS: model validator disagrees with python jsonschema\n{}", String::from_utf8_lossy(&o.stderr));
                return 2;
            }
        }
        Err(e) => {
            eprintln!("HARNESS: cannot run python3-vt ({e}); model cross-check skipped");
            return 2;
        }
    }
    0
}

/// rustc stage: the final rendering of clean sessions, one module each, in a
/// scratch crate with the documented dependency set; `cargo check` (1.80.1,
/// offline) decides what the structural oracle cannot (type errors, E0072).
/// Returns (seed, violation) pairs and the number of modules checked.
pub fn rustc_stage(base_seed: u64, stage: &Stage, workers: usize) -> Result<(Vec<(u64, Violation)>, usize, f64), String> {
    let t0 = Instant::now();
    let res = run_stage_emit(base_seed, stage, workers, true)?;
    let root = report::verif_root();
    let template = root.join("sim/rustc-check");
    let dir = root.join(format!(".work/rustc/{}-{}", stage.name, std::process::id()));
    let _ = std::fs::remove_dir_all(&dir);
    std::fs::create_dir_all(dir.join("src")).map_err(|e| e.to_string())?;
    for f in ["Cargo.toml", "Cargo.lock", "rust-toolchain.toml"] {
        std::fs::copy(template.join(f), dir.join(f)).map_err(|e| format!("copy {f}: {e}"))?;
    }
    let mut lib = String::from("#![allow(warnings)]\n");
    let mut index_to_seed: BTreeMap<u64, u64> = BTreeMap::new();
    // modules in which a generated item shadows a std prelude name (the
    // repository's rust-collisions.json fixture defines `String`, `Vec`, ...)
    let mut shadowing: BTreeSet<u64> = BTreeSet::new();
    let mut n = 0usize;
    for s in &res {
        if let Some(out) = &s.output {
            std::fs::write(dir.join(format!("src/m{}.rs", s.index)), out).map_err(|e| e.to_string())?;
            if shadows_std_prelude(out) {
                shadowing.insert(s.seed);
            }
            lib.push_str(&format!("pub mod m{};\n", s.index));
            index_to_seed.insert(s.index, s.seed);
            n += 1;
        }
    }
    std::fs::write(dir.join("src/lib.rs"), lib).map_err(|e| e.to_string())?;
    let out = std::process::Command::new("cargo")
        .args(["check", "--offline", "--message-format=json", "--quiet"])
        .current_dir(&dir)
        .env("CARGO_TARGET_DIR", root.join("target/rustccheck"))
        .env("CARGO_NET_OFFLINE", "true")
        .output()
        .map_err(|e| format!("cargo check: {e}"))?;
    let mut found: Vec<(u64, Violation)> = Vec::new();
    let mut seen: BTreeSet<(u64, String)> = BTreeSet::new();
    for line in String::from_utf8_lossy(&out.stdout).lines() {
        let Ok(m) = serde_json::from_str::<Value>(line) else { continue };
        if m.get("reason") != Some(&json!("compiler-message")) {
            continue;
        }
        let msg = &m["message"];
        if msg["level"] != json!("error") {
            continue;
        }
        let code = msg["code"]["code"].as_str().unwrap_or("no-code").to_string();
        let file = msg["spans"].as_array().and_then(|a| a.first()).and_then(|s| s["file_name"].as_str()).unwrap_or("");
        let idx: Option<u64> = file.strip_prefix("src/m").and_then(|f| f.strip_suffix(".rs")).and_then(|f| f.parse().ok());
        let text = msg["message"].as_str().unwrap_or("").to_string();
        match idx.and_then(|i| index_to_seed.get(&i).map(|s| (i, *s))) {
            Some((_, seed)) => {
                if seen.insert((seed, code.clone())) {
                    found.push((
                        seed,
                        Violation {
                            invariant: "I11".into(),
                            key: if shadowing.contains(&seed) {
                                // one family: unqualified std names in generated code resolve to the user's type
                                format!("rustc:std-name-shadowed:{code}")
                            } else {
                                format!("rustc:{code}:{}", normalise_rustc_message(&text))
                            },
                            step: 0,
                            observed: format!("rustc rejects the final output of the session: error[{code}]: {text}"),
                            expected: "the emitted module type-checks against serde, serde_json, chrono, uuid, regress".into(),
                        },
                    ));
                }
            }
            None => {
                if text.contains("aborting due to") || text.contains("could not compile") {
                    continue;
                }
                return Err(format!("cargo check error outside the generated modules: [{code}] {text} ({file})"));
            }
        }
    }
    if !out.status.success() && found.is_empty() {
        return Err(format!(
            "cargo check failed without attributable errors:\n{}",
            String::from_utf8_lossy(&out.stderr).lines().take(20).collect::<Vec<_>>().join("\n")
        ));
    }
    let _ = std::fs::remove_dir_all(&dir);
    Ok((found, n, t0.elapsed().as_secs_f64()))
}

/// `expected` (a schema default) is reproduced by `actual` (what the compiled
/// code serialises) up to the filling of nested defaults: extra members inside
/// objects are allowed, members serde skips (null, empty array, empty object)
/// may be absent, numbers compare by value.
pub fn covers(actual: Option<&Value>, expected: &Value) -> bool {
    let Some(actual) = actual else {
        return match expected {
            Value::Null => true,
            Value::Array(a) => a.is_empty(),
            Value::Object(o) => o.is_empty(),
            _ => false,
        };
    };
    match (actual, expected) {
        (Value::Number(a), Value::Number(b)) => a.as_f64() == b.as_f64(),
        (Value::Array(a), Value::Array(b)) => {
            if a.len() != b.len() {
                return false;
            }
            if a.iter().zip(b.iter()).all(|(x, y)| covers(Some(x), y)) {
                return true;
            }
            // sets serialise in their own order
            let mut sa: Vec<String> = a.iter().map(|x| x.to_string()).collect();
            let mut sb: Vec<String> = b.iter().map(|x| x.to_string()).collect();
            sa.sort();
            sb.sort();
            sa == sb
        }
        (Value::Object(a), Value::Object(b)) => b.iter().all(|(k, v)| covers(a.get(k), v)),
        (a, b) => a == b,
    }
}

/// The module text with one item per line (items of inline modules too), and
/// for every line a label saying what kind of item it is: rustc error spans
/// can then be attributed to "a default function", "the Default impl of a
/// type", "the builder module", ...
pub fn one_item_per_line(output: &str) -> (String, Vec<String>) {
    use quote::ToTokens;
    let Ok(file) = syn::parse_str::<syn::File>(output) else {
        return (output.to_string(), vec!["?".into()]);
    };
    fn label(item: &syn::Item, scope: &str) -> String {
        let base = match item {
            syn::Item::Impl(i) => {
                let tr = i.trait_.as_ref().map(|(_, p, _)| p.segments.last().map(|s| s.ident.to_string()).unwrap_or_default());
                match tr.as_deref() {
                    Some("Default") => "impl-Default".to_string(),
                    Some(t) => format!("impl-{t}"),
                    None => "impl".to_string(),
                }
            }
            syn::Item::Fn(_) => "fn".to_string(),
            syn::Item::Struct(_) | syn::Item::Enum(_) | syn::Item::Type(_) => "type".to_string(),
            _ => "item".to_string(),
        };
        if scope.is_empty() {
            base
        } else {
            format!("{scope}:{base}")
        }
    }
    let mut text = String::new();
    let mut labels = Vec::new();
    fn emit(items: &[syn::Item], scope: &str, text: &mut String, labels: &mut Vec<String>) {
        use quote::ToTokens;
        for item in items {
            match item {
                syn::Item::Mod(m) if m.content.is_some() => {
                    let mut head = String::new();
                    for a in &m.attrs {
                        head.push_str(&a.to_token_stream().to_string());
                        head.push(' ');
                    }
                    head.push_str(&format!("{} mod {} {{", m.vis.to_token_stream(), m.ident));
                    text.push_str(&head);
                    text.push('\n');
                    labels.push(format!("mod-{}", m.ident));
                    let inner_scope = if scope.is_empty() { m.ident.to_string() } else { format!("{scope}/{}", m.ident) };
                    emit(&m.content.as_ref().unwrap().1, &inner_scope, text, labels);
                    text.push_str("}\n");
                    labels.push(format!("mod-{}", m.ident));
                }
                other => {
                    text.push_str(&other.to_token_stream().to_string());
                    text.push('\n');
                    labels.push(label(other, scope));
                }
            }
        }
    }
    for a in &file.attrs {
        text.push_str(&a.to_token_stream().to_string());
        text.push('\n');
        labels.push("attr".into());
    }
    emit(&file.items, "", &mut text, &mut labels);
    (text, labels)
}

/// `cargo check` of a library made of the given modules; returns the indices
/// of the modules rustc reports an error in.
pub fn check_modules(tag: &str, modules: &[(u64, String)]) -> Result<BTreeSet<u64>, String> {
    let root = report::verif_root();
    let template = root.join("sim/rustc-check");
    let dir = root.join(format!(".work/value/{tag}-{}", std::process::id()));
    let _ = std::fs::remove_dir_all(&dir);
    std::fs::create_dir_all(dir.join("src")).map_err(|e| e.to_string())?;
    for f in ["Cargo.toml", "Cargo.lock", "rust-toolchain.toml"] {
        std::fs::copy(template.join(f), dir.join(f)).map_err(|e| format!("copy {f}: {e}"))?;
    }
    let mut lib = String::from("#![allow(warnings)]\n");
    for (idx, text) in modules {
        std::fs::write(dir.join(format!("src/m{idx}.rs")), text).map_err(|e| e.to_string())?;
        lib.push_str(&format!("pub mod m{idx};\n"));
    }
    std::fs::write(dir.join("src/lib.rs"), lib).map_err(|e| e.to_string())?;
    let out = std::process::Command::new("cargo")
        .args(["check", "--offline", "--message-format=json", "--quiet"])
        .current_dir(&dir)
        .env("CARGO_TARGET_DIR", root.join("target/rustccheck"))
        .env("CARGO_NET_OFFLINE", "true")
        .output()
        .map_err(|e| format!("cargo check: {e}"))?;
    let mut bad = BTreeSet::new();
    for line in String::from_utf8_lossy(&out.stdout).lines() {
        let Ok(m) = serde_json::from_str::<Value>(line) else { continue };
        if m.get("reason") != Some(&json!("compiler-message")) || m["message"]["level"] != json!("error") {
            continue;
        }
        let file = m["message"]["spans"].as_array().and_then(|a| a.first()).and_then(|s| s["file_name"].as_str()).unwrap_or("");
        if let Some(i) = file.strip_prefix("src/m").and_then(|f| f.strip_suffix(".rs")).and_then(|f| f.parse::<u64>().ok()) {
            bad.insert(i);
        }
    }
    if !out.status.success() && bad.is_empty() {
        return Err(format!("cargo check ({tag}) failed without attributable errors"));
    }
    let _ = std::fs::remove_dir_all(&dir);
    Ok(bad)
}

#[derive(Debug, Clone)]
pub enum ProbeAnswer {
    Ok(Value),
    InputRejected(String),
    Panic,
    Missing,
}

/// Build one crate out of the given modules (generated output + probe
/// functions), run it, and return the answer to every probe. Modules that do
/// not compile are dropped (their errors belong to C01's rustc stage) and
/// returned in the second component.
pub fn run_value_crate(tag: &str, modules: &[(u64, String, Vec<exec::ValueProbe>)]) -> Result<(BTreeMap<(u64, usize), ProbeAnswer>, BTreeMap<u64, (String, String)>), String> {
    let root = report::verif_root();
    let template = root.join("sim/rustc-check");
    let dir = root.join(format!(".work/value/{tag}-{}", std::process::id()));
    let _ = std::fs::remove_dir_all(&dir);
    std::fs::create_dir_all(dir.join("src")).map_err(|e| e.to_string())?;
    for f in ["Cargo.toml", "Cargo.lock", "rust-toolchain.toml"] {
        std::fs::copy(template.join(f), dir.join(f)).map_err(|e| format!("copy {f}: {e}"))?;
    }
    // module -> (finding key of its first rustc error, full text); errors in the
    // probe code itself are keyed "probe-code"
    let mut dropped: BTreeMap<u64, (String, String)> = BTreeMap::new();
    let mut answers: BTreeMap<(u64, usize), ProbeAnswer> = BTreeMap::new();
    let mut line_labels: BTreeMap<u64, Vec<String>> = BTreeMap::new();
    for attempt in 0..3 {
        let mut main = String::from("#![allow(warnings)]\n");
        let mut calls = String::new();
        for (idx, out, probes) in modules {
            if dropped.contains_key(idx) {
                let _ = std::fs::remove_file(dir.join(format!("src/m{idx}.rs")));
                let _ = std::fs::remove_file(dir.join(format!("src/p{idx}.rs")));
                continue;
            }
            let (split, labels) = one_item_per_line(out);
            line_labels.insert(*idx, labels);
            std::fs::write(dir.join(format!("src/m{idx}.rs")), split).map_err(|e| e.to_string())?;
            let mut p = String::from("#![allow(warnings)]\nuse crate::m");
            p.push_str(&format!("{idx} as m;\npub fn run() {{\n"));
            for (k, pr) in probes.iter().enumerate() {
                let ty = &pr.type_name;
                match &pr.input {
                    Some(input) => {
                        let text = serde_json::to_string(input).unwrap();
                        p.push_str(&format!(
                            "    crate::emit({idx}, {k}, std::panic::catch_unwind(|| {{ let v: m::{ty} = serde_json::from_str(r####\"{text}\"####).map_err(|e| e.to_string())?; Ok(serde_json::to_string(&v).unwrap()) }}));\n"
                        ));
                    }
                    None if pr.kind == "builder-defaults" => {
                        p.push_str(&format!(
                            "    crate::emit({idx}, {k}, std::panic::catch_unwind(|| {{ let v: m::{ty} = m::{ty}::builder().try_into().map_err(|e: m::error::ConversionError| e.to_string())?; Ok(serde_json::to_string(&v).unwrap()) }}));\n"
                        ));
                    }
                    None => {
                        p.push_str(&format!(
                            "    crate::emit({idx}, {k}, std::panic::catch_unwind(|| {{ let v: m::{ty} = Default::default(); Ok(serde_json::to_string(&v).unwrap()) }}));\n"
                        ));
                    }
                }
            }
            p.push_str("}\n");
            std::fs::write(dir.join(format!("src/p{idx}.rs")), p).map_err(|e| e.to_string())?;
            main.push_str(&format!("mod m{idx};\nmod p{idx};\n"));
            calls.push_str(&format!("    if only.is_none() || only.as_deref() == Some(\"{idx}\") {{ p{idx}::run(); }}\n"));
        }
        main.push_str(
            "pub fn emit(i: u64, k: usize, r: std::thread::Result<Result<String, String>>) {\n    match r {\n        Ok(Ok(s)) => println!(\"PROBE\\t{i}\\t{k}\\tok\\t{s}\"),\n        Ok(Err(e)) => println!(\"PROBE\\t{i}\\t{k}\\tde-err\\t{}\", e.replace('\\n', \" \")),\n        Err(_) => println!(\"PROBE\\t{i}\\t{k}\\tpanic\\t\"),\n    }\n}\nfn main() {\n    std::panic::set_hook(Box::new(|_| {}));\n",
        );
        // with an argument: only that module (used to find the module that takes the process down)
        main.push_str("    let only: Option<String> = std::env::args().nth(1);\n");
        main.push_str(&calls);
        main.push_str("}\n");
        std::fs::write(dir.join("src/main.rs"), main).map_err(|e| e.to_string())?;
        let out = std::process::Command::new("cargo")
            .args(["build", "--offline", "--message-format=json", "--quiet"])
            .current_dir(&dir)
            .env("CARGO_TARGET_DIR", root.join("target/valuecheck"))
            .env("CARGO_NET_OFFLINE", "true")
            .output()
            .map_err(|e| format!("cargo build: {e}"))?;
        let mut bad: BTreeMap<u64, (String, String)> = BTreeMap::new();
        let mut unattributed: Vec<String> = Vec::new();
        let mut exe: Option<String> = None;
        for line in String::from_utf8_lossy(&out.stdout).lines() {
            let Ok(m) = serde_json::from_str::<Value>(line) else { continue };
            if m.get("reason") == Some(&json!("compiler-artifact")) {
                if let Some(e) = m.get("executable").and_then(|e| e.as_str()) {
                    exe = Some(e.to_string());
                }
                continue;
            }
            if m.get("reason") != Some(&json!("compiler-message")) || m["message"]["level"] != json!("error") {
                continue;
            }
            let msg = &m["message"];
            let file = msg["spans"].as_array().and_then(|a| a.first()).and_then(|s| s["file_name"].as_str()).unwrap_or("");
            let idx: Option<u64> = file
                .strip_prefix("src/m")
                .or_else(|| file.strip_prefix("src/p"))
                .and_then(|f| f.strip_suffix(".rs"))
                .and_then(|f| f.parse().ok());
            let text = msg["message"].as_str().unwrap_or("");
            let code = msg["code"]["code"].as_str().unwrap_or("no-code");
            match idx {
                Some(i) => {
                    let line = msg["spans"].as_array().and_then(|a| a.iter().find(|s| s["is_primary"] == json!(true)).or(a.first())).and_then(|s| s["line_start"].as_u64()).unwrap_or(0) as usize;
                    let place = line_labels.get(&i).and_then(|l| l.get(line.saturating_sub(1))).cloned().unwrap_or_else(|| "?".into());
                    let key = if file.starts_with("src/p") { "probe-code".to_string() } else { format!("rustc:{code}:{}|in:{place}", normalise_rustc_message(text)) };
                    bad.entry(i).or_insert((key, format!("error[{code}]: {text}")));
                }
                None => {
                    if !(text.contains("aborting due to") || text.contains("could not compile")) {
                        unattributed.push(format!("{text} ({file})"));
                    }
                }
            }
        }
        if out.status.success() {
            let exe = exe.ok_or_else(|| "cargo build reported no executable".to_string())?;
            let mut run = std::process::Command::new(&exe).output().map_err(|e| format!("run {exe}: {e}"))?;
            let mut stdout_all = String::from_utf8_lossy(&run.stdout).to_string();
            if !run.status.success() {
                // something took the whole process down (abort, stack overflow):
                // every module on its own; the one that dies answers `panic`
                stdout_all.clear();
                for (idx, _, probes) in modules {
                    if dropped.contains_key(idx) {
                        continue;
                    }
                    let one = std::process::Command::new(&exe).arg(idx.to_string()).output().map_err(|e| format!("run {exe}: {e}"))?;
                    stdout_all.push_str(&String::from_utf8_lossy(&one.stdout));
                    if !one.status.success() {
                        let answered = String::from_utf8_lossy(&one.stdout).lines().filter(|l| l.starts_with("PROBE\t")).count();
                        eprintln!(
                            "note: the probe process of module m{idx} ended with {:?} after {answered} answers: {}",
                            one.status,
                            String::from_utf8_lossy(&one.stderr).lines().take(3).collect::<Vec<_>>().join(" | ")
                        );
                        // the probe that was running when the process died
                        if answered < probes.len() {
                            stdout_all.push_str(&format!("PROBE\t{idx}\t{answered}\tpanic\t\n"));
                        }
                    }
                }
                run.status = std::process::Command::new("true").status().map_err(|e| e.to_string())?;
            }
            for line in stdout_all.lines() {
                let f: Vec<&str> = line.splitn(5, '\t').collect();
                if f.len() == 5 && f[0] == "PROBE" {
                    let (Ok(i), Ok(k)) = (f[1].parse::<u64>(), f[2].parse::<usize>()) else { continue };
                    let a = match f[3] {
                        "ok" => match serde_json::from_str::<Value>(f[4]) {
                            Ok(v) => ProbeAnswer::Ok(v),
                            Err(e) => return Err(format!("probe output does not parse: {e}: {}", f[4])),
                        },
                        "de-err" => ProbeAnswer::InputRejected(f[4].to_string()),
                        _ => ProbeAnswer::Panic,
                    };
                    answers.insert((i, k), a);
                }
            }
            if !run.status.success() {
                return Err(format!("the probe binary ended with {:?}", run.status));
            }
            let _ = std::fs::remove_dir_all(&dir);
            return Ok((answers, dropped));
        }
        if bad.is_empty() {
            return Err(format!(
                "cargo build of the value crate failed without attributable errors: {}\n{}",
                unattributed.join("; "),
                String::from_utf8_lossy(&out.stderr).lines().take(20).collect::<Vec<_>>().join("\n")
            ));
        }
        dropped.extend(bad);
        let _ = attempt;
    }
    Err("the value crate still does not build after dropping the failing modules three times".into())
}

/// Judge the answers of one module's probes.
pub fn judge_value_probes(idx: u64, probes: &[exec::ValueProbe], answers: &BTreeMap<(u64, usize), ProbeAnswer>, counts: &mut BTreeMap<String, u64>) -> Vec<Violation> {
    let mut out = Vec::new();
    for (k, pr) in probes.iter().enumerate() {
        let a = answers.get(&(idx, k)).cloned().unwrap_or(ProbeAnswer::Missing);
        match a {
            ProbeAnswer::Missing => {
                *counts.entry("value_stage.probe_without_answer".into()).or_insert(0) += 1;
            }
            ProbeAnswer::InputRejected(_) => {
                *counts.entry("value_stage.minimal_instance_rejected_by_generated_type".into()).or_insert(0) += 1;
            }
            ProbeAnswer::Panic => {
                for (member, d, class, _) in &pr.expect {
                    out.push(Violation {
                        invariant: "I12".into(),
                        key: format!("default-panics-at-run-time|{class}"),
                        step: 0,
                        observed: format!("{} ({}): producing the default of {} panics in the compiled output (schema default {})", pr.type_name, pr.site, if pr.kind == "type-default" { "the type".to_string() } else { format!("member `{member}`") }, d),
                        expected: "the realised default serialises to the schema's default".into(),
                    });
                }
            }
            ProbeAnswer::Ok(v) => {
                *counts.entry(format!("value_stage.answered.{}", pr.kind)).or_insert(0) += 1;
                for (member, d, class, filled) in &pr.expect {
                    let actual = if pr.kind == "type-default" { Some(&v) } else { v.get(member) };
                    if covers(actual, d) {
                        *counts.entry("value_stage.default_reproduced".into()).or_insert(0) += 1;
                        // "up to filling of nested defaults": a member the default omits
                        // is realised with ITS schema default, not with some other value
                        if filled != d {
                            if covers(actual, filled) {
                                *counts.entry("value_stage.nested_defaults_filled_in".into()).or_insert(0) += 1;
                            } else {
                                out.push(Violation {
                                    invariant: "I12".into(),
                                    key: format!("default-value-differs:{}:omitted-member-not-its-default|{class}", pr.kind),
                                    step: 0,
                                    observed: format!(
                                        "{} ({}): the realised default {} reproduces the schema's default {} but a member that default omits does not get its own schema default (with nested defaults filled in: {})",
                                        pr.type_name,
                                        pr.site,
                                        actual.map(|a| a.to_string()).unwrap_or_else(|| "absent".into()),
                                        d,
                                        filled
                                    ),
                                    expected: "the realised default serialises to the schema's default up to filling of nested defaults".into(),
                                });
                            }
                        }
                    } else {
                        out.push(Violation {
                            invariant: "I12".into(),
                            // `absent`: the member is not there at all (the default was not
                            // honoured as a serde default); `wrong`: another value is
                            key: format!("default-value-differs:{}:{}|{class}", pr.kind, if actual.is_none() { "absent" } else { "wrong" }),
                            step: 0,
                            observed: format!(
                                "{} ({}): {} is {} in the compiled output, the schema's default is {}",
                                pr.type_name,
                                pr.site,
                                if pr.kind == "type-default" { "<T as Default>::default()".to_string() } else if pr.kind == "builder-defaults" { format!("member `{member}` of `T::builder().try_into()`") } else { format!("member `{member}` of a value deserialised without it") },
                                actual.map(|a| a.to_string()).unwrap_or_else(|| "absent".into()),
                                d
                            ),
                            expected: "the realised default serialises to the schema's default (up to filling of nested defaults)".into(),
                        });
                    }
                }
            }
        }
    }
    out
}

/// Only probes whose type the module really defines (replaced types are not
/// generated) and, for `type-default`, whose Default impl it really has.
pub fn applicable_probes(output: &str, probes: &[exec::ValueProbe]) -> Vec<exec::ValueProbe> {
    probes
        .iter()
        .filter(|p| {
            let n = &p.type_name;
            let defined = output.contains(&format!("pub struct {n} ")) || output.contains(&format!("pub enum {n} ")) || output.contains(&format!("pub struct {n}("));
            let has_default = output.contains(&format!("Default for {n} {{"));
            let has_builder = output.contains("pub mod builder {");
            defined
                && n.chars().all(|c| c.is_ascii_alphanumeric() || c == '_')
                && (p.kind != "type-default" || has_default)
                && (p.kind != "builder-defaults" || has_builder)
        })
        .cloned()
        .collect()
}

/// C06 value stage: compile the final outputs of clean default-carrying
/// sessions together with their probes, RUN them, compare realised defaults
/// with the schemas' defaults.
pub fn value_stage(base_seed: u64, stage: &Stage, workers: usize) -> Result<(Vec<(u64, Violation)>, usize, BTreeMap<String, u64>, f64), String> {
    let t0 = Instant::now();
    let res = run_stage_emit(base_seed, stage, workers, true)?;
    let mut modules: Vec<(u64, String, Vec<exec::ValueProbe>)> = Vec::new();
    let mut seeds: BTreeMap<u64, u64> = BTreeMap::new();
    let mut counts: BTreeMap<String, u64> = BTreeMap::new();
    for s in &res {
        if let Some(out) = &s.output {
            if shadows_std_prelude(out) {
                continue;
            }
            let probes = applicable_probes(out, &s.value_probes);
            *counts.entry("value_stage.probes_not_applicable".into()).or_insert(0) += (s.value_probes.len() - probes.len()) as u64;
            if probes.is_empty() {
                continue;
            }
            seeds.insert(s.index, s.seed);
            modules.push((s.index, out.clone(), probes));
        }
    }
    let n = modules.len();
    if n == 0 {
        return Ok((Vec::new(), 0, counts, t0.elapsed().as_secs_f64()));
    }
    // one crate per 250 modules: rustc's time and memory stay bounded in the thorough tier
    let mut answers: BTreeMap<(u64, usize), ProbeAnswer> = BTreeMap::new();
    let mut dropped: BTreeMap<u64, (String, String)> = BTreeMap::new();
    for (ci, chunk) in modules.chunks(250).enumerate() {
        let (a, d) = run_value_crate(&format!("{}-{ci}", stage.name), chunk)?;
        answers.extend(a);
        dropped.extend(d);
    }
    *counts.entry("value_stage.modules_dropped_rustc_error".into()).or_insert(0) += dropped.len() as u64;
    let mut found = Vec::new();
    // ----- a module that does not compile: is it the defaults? -----
    // The same session with every default annotation removed is rendered and
    // type-checked; when that compiles, (valid) defaults were turned into code
    // rustc rejects.
    let mut stripped: Vec<(u64, String)> = Vec::new();
    for (idx, (key, _)) in &dropped {
        if key == "probe-code" {
            *counts.entry("value_stage.probe_code_does_not_compile".into()).or_insert(0) += 1;
            continue;
        }
        let desc = gen::generate(seeds[idx], stage.focus, stage.faults);
        let (out, hung) = exec::execute_watched(&exec::without_defaults(&desc), std::time::Duration::from_secs(RUN_TIMEOUT_S));
        if hung {
            continue;
        }
        if let Some(text) = out.final_output {
            stripped.push((*idx, text));
        }
    }
    if !stripped.is_empty() {
        let failing = check_modules(&format!("{}-stripped", stage.name), &stripped)?;
        for (idx, _) in &stripped {
            if failing.contains(idx) {
                *counts.entry("value_stage.uncompilable_without_defaults_too".into()).or_insert(0) += 1;
                continue;
            }
            let (key, text) = &dropped[idx];
            found.push((
                seeds[idx],
                Violation {
                    invariant: "I12".into(),
                    key: format!("default-makes-output-uncompilable:{key}"),
                    step: 0,
                    observed: format!("the final output of the session does not compile ({text}); the same session without its (valid) defaults compiles"),
                    expected: "an accepted default is realised as code that compiles and yields the schema's default".into(),
                },
            ));
        }
    }
    for (idx, _out, probes) in &modules {
        if dropped.contains_key(idx) {
            continue;
        }
        for v in judge_value_probes(*idx, probes, &answers, &mut counts) {
            found.push((seeds[idx], v));
        }
    }
    Ok((found, n, counts, t0.elapsed().as_secs_f64()))
}

/// Replay of a value-stage finding: the session again, one module, built and run.
pub fn value_replay(r: &ReplayFile) -> i32 {
    let out = exec::execute(&r.run);
    let Some(text) = out.final_output.clone() else {
        println!("NOT-REPRODUCED (the session is not clean any more)");
        return 0;
    };
    let probes = applicable_probes(&text, &out.value_probes);
    let modules = vec![(0u64, text, probes.clone())];
    match run_value_crate("replay", &modules) {
        Ok((answers, dropped)) => {
            if let Some((key, text)) = dropped.get(&0) {
                if r.finding_key == format!("default-makes-output-uncompilable:{key}") {
                    let (o2, _) = exec::execute_watched(&exec::without_defaults(&r.run), std::time::Duration::from_secs(RUN_TIMEOUT_S));
                    let compiles_without = match o2.final_output {
                        Some(t) => check_modules("replay-stripped", &[(0u64, t)]).map(|f| f.is_empty()).unwrap_or(false),
                        None => false,
                    };
                    if compiles_without {
                        println!("  {text}");
                        println!("REPRODUCED {} {}", r.invariant, r.finding_key);
                        println!("VIOLATION property={} replay=<this file>", r.property);
                        return 1;
                    }
                }
                println!("NOT-REPRODUCED (the module does not compile: {text})");
                return 0;
            }
            let mut counts = BTreeMap::new();
            let vs = judge_value_probes(0, &probes, &answers, &mut counts);
            for v in &vs {
                println!("  {} {} : {}", v.invariant, v.key, v.observed);
            }
            if vs.iter().any(|v| v.invariant == r.invariant && v.key == r.finding_key) {
                println!("REPRODUCED {} {}", r.invariant, r.finding_key);
                println!("VIOLATION property={} replay=<this file>", r.property);
                1
            } else {
                println!("NOT-REPRODUCED {} {}", r.invariant, r.finding_key);
                0
            }
        }
        Err(e) => {
            eprintln!("HARNESS: value replay: {e}");
            2
        }
    }
}

/// Does the module define an item whose name is a std prelude type/trait?
pub fn shadows_std_prelude(module: &str) -> bool {
    const NAMES: &[&str] = &["String", "Vec", "Option", "Box", "Result", "Default", "From", "Into", "Clone", "ToString", "Iterator"];
    for n in NAMES {
        for kw in ["struct", "enum", "type"] {
            if module.contains(&format!("pub {kw} {n} ")) || module.contains(&format!("pub {kw} {n}(")) || module.contains(&format!("pub {kw} {n}<")) {
                return true;
            }
        }
    }
    false
}

/// Error text with generated names abstracted, so that the finding key names
/// the kind of error and not the session: module prefixes dropped, generated
/// type names (K<x>..., Hint<n>, Rt<n>Root, Q<n>T<n>) replaced by `T`.
pub fn normalise_rustc_message(text: &str) -> String {
    let mut out = String::new();
    let mut word = String::new();
    let flush = |w: &mut String, out: &mut String| {
        if w.is_empty() {
            return;
        }
        // a patch of the generator renames `Name` to `HTTPName`
        let b = w.strip_prefix("HTTP").filter(|r| r.len() > 2).unwrap_or(w.as_str()).as_bytes();
        let generated = (b.len() > 2 && (b[0] == b'K' || b[0] == b'X') && b[1].is_ascii_lowercase() && b[2].is_ascii_uppercase())
            || w.starts_with("Hint")
            || (w.starts_with("Rt") && w.ends_with("Root"))
            || (b[0] == b'Q' && b.len() > 1 && b[1].is_ascii_digit());
        let module = b[0] == b'm' && b.len() > 1 && b[1..].iter().all(|c| c.is_ascii_digit());
        if generated {
            out.push('T');
        } else if module {
            out.push('M');
        } else {
            out.push_str(w);
        }
        w.clear();
    };
    for c in text.chars() {
        if c.is_ascii_alphanumeric() || c == '_' {
            word.push(c);
        } else {
            flush(&mut word, &mut out);
            out.push(c);
        }
    }
    flush(&mut word, &mut out);
    // `std::boxed::Box<T>` and `Box<T>` are the same message in different rustc phrasings
    let mut t = out.replace("M::", "");
    for prefix in ["std::boxed::", "std::option::", "std::vec::", "std::string::", "std::collections::", "core::num::", "std::num::"] {
        t = t.replace(prefix, "");
    }
    // E0063 names the missing fields: `missing fields `a`, `b` and 1 other field in initializer of `T``
    if let (Some(a), Some(b)) = (t.find("missing field"), t.find(" in initializer of")) {
        if a < b {
            t = format!("{}missing field(s) _{}", &t[..a], &t[b..]);
        }
    }
    for int in ["u8", "u16", "u32", "u64", "i8", "i16", "i32", "i64"] {
        t = t.replace(&format!("NonZero<{int}>"), "NonZero<int>");
    }
    t.chars().take(120).collect()
}

/// Replay of a rustc-stage finding: regenerate the run, render, check one module.
pub fn rustc_replay(r: &ReplayFile) -> i32 {
    let out = exec::execute(&r.run);
    let Some(text) = out.final_output else {
        println!("NOT-REPRODUCED (the session is not clean any more)");
        return 0;
    };
    let root = report::verif_root();
    let template = root.join("sim/rustc-check");
    let dir = root.join(format!(".work/rustc/replay-{}", std::process::id()));
    let _ = std::fs::remove_dir_all(&dir);
    if std::fs::create_dir_all(dir.join("src")).is_err() {
        return 2;
    }
    for f in ["Cargo.toml", "Cargo.lock", "rust-toolchain.toml"] {
        if std::fs::copy(template.join(f), dir.join(f)).is_err() {
            eprintln!("HARNESS: cannot copy {f}");
            return 2;
        }
    }
    let _ = std::fs::write(dir.join("src/lib.rs"), "#![allow(warnings)]\npub mod m0;\n");
    let _ = std::fs::write(dir.join("src/m0.rs"), &text);
    let o = std::process::Command::new("cargo")
        .args(["check", "--offline", "--message-format=short", "--quiet"])
        .current_dir(&dir)
        .env("CARGO_TARGET_DIR", root.join("target/rustccheck"))
        .output();
    let _ = std::fs::remove_dir_all(&dir);
    match o {
        Ok(o) => {
            let err = String::from_utf8_lossy(&o.stderr).to_string();
            let code = r.finding_key.trim_start_matches("rustc:").trim_start_matches("std-name-shadowed:").split(':').next().unwrap_or("");
            if err.contains(&format!("error[{code}]")) || (code == "no-code" && err.contains("error")) {
                for l in err.lines().filter(|l| l.contains("error")).take(5) {
                    println!("  {l}");
                }
                println!("REPRODUCED I11 {}", r.finding_key);
                println!("VIOLATION property={} replay=<this file>", r.property);
                1
            } else {
                println!("NOT-REPRODUCED {}", r.finding_key);
                0
            }
        }
        Err(e) => {
            eprintln!("HARNESS: cargo check: {e}");
            2
        }
    }
}
