//! The one source of simulated randomness: splitmix64 -> xoshiro256**.
//! Every choice of every run is drawn from one `Rng` seeded from one integer.

#[derive(Clone, Debug)]
pub struct Rng {
    s: [u64; 4],
    /// number of draws so far (reported in event logs, never used for choices)
    pub draws: u64,
}

pub fn splitmix64(state: &mut u64) -> u64 {
    *state = state.wrapping_add(0x9E37_79B9_7F4A_7C15);
    let mut z = *state;
    z = (z ^ (z >> 30)).wrapping_mul(0xBF58_476D_1CE4_E5B9);
    z = (z ^ (z >> 27)).wrapping_mul(0x94D0_49BB_1331_11EB);
    z ^ (z >> 31)
}

/// Derive the seed of run `index` of a batch started from `base`.
pub fn derive_seed(base: u64, stream: u64, index: u64) -> u64 {
    let mut st = base ^ stream.wrapping_mul(0xD6E8_FEB8_6659_FD93);
    let a = splitmix64(&mut st);
    let mut st2 = a ^ index.wrapping_mul(0xA076_1D64_78BD_642F);
    splitmix64(&mut st2)
}

impl Rng {
    pub fn new(seed: u64) -> Self {
        let mut st = seed;
        let s = [
            splitmix64(&mut st),
            splitmix64(&mut st),
            splitmix64(&mut st),
            splitmix64(&mut st),
        ];
        Rng { s, draws: 0 }
    }

    pub fn next_u64(&mut self) -> u64 {
        self.draws += 1;
        let result = self.s[1].wrapping_mul(5).rotate_left(7).wrapping_mul(9);
        let t = self.s[1] << 17;
        self.s[2] ^= self.s[0];
        self.s[3] ^= self.s[1];
        self.s[1] ^= self.s[2];
        self.s[0] ^= self.s[3];
        self.s[2] ^= t;
        self.s[3] = self.s[3].rotate_left(45);
        result
    }

    /// uniform in 0..n (n > 0)
    pub fn below(&mut self, n: usize) -> usize {
        assert!(n > 0);
        // multiply-shift; bias is irrelevant at these sizes
        (((self.next_u64() >> 11) as u128 * n as u128) >> 53) as usize
    }

    /// uniform in lo..=hi
    pub fn range(&mut self, lo: usize, hi: usize) -> usize {
        lo + self.below(hi - lo + 1)
    }

    /// true with probability num/den
    pub fn chance(&mut self, num: usize, den: usize) -> bool {
        self.below(den) < num
    }

    pub fn pick<'a, T>(&mut self, xs: &'a [T]) -> &'a T {
        &xs[self.below(xs.len())]
    }

    pub fn shuffle<T>(&mut self, xs: &mut [T]) {
        for i in (1..xs.len()).rev() {
            let j = self.below(i + 1);
            xs.swap(i, j);
        }
    }

    /// independent child generator (so adding draws in one sub-generator does
    /// not shift every later choice of the run)
    pub fn fork(&mut self) -> Rng {
        Rng::new(self.next_u64())
    }
}

/// FNV-1a 64 — the harness's only digest; deterministic, no random keys.
pub fn fnv64(bytes: &[u8]) -> u64 {
    let mut h: u64 = 0xcbf29ce484222325;
    for b in bytes {
        h ^= *b as u64;
        h = h.wrapping_mul(0x100000001b3);
    }
    h
}

#[cfg(test)]
mod tests {
    use super::*;
    #[test]
    fn repeatable() {
        let mut a = Rng::new(7);
        let mut b = Rng::new(7);
        for _ in 0..100 {
            assert_eq!(a.next_u64(), b.next_u64());
        }
        let mut c = Rng::new(8);
        assert_ne!(Rng::new(7).next_u64(), c.next_u64());
    }
}
