//! Session executor: drives the real `typify_impl::TypeSpace` through its
//! public API according to a `RunDesc`, checks the step invariants I1–I10
//! against the reference model, and the history relations H1–H4 against a
//! second simulated session.

use std::collections::{BTreeMap, BTreeSet};
use std::panic::{catch_unwind, AssertUnwindSafe};

use schemars::schema::{RootSchema, Schema};
use serde::{Deserialize, Serialize};
use serde_json::{json, Value};
use typify_impl::{
    TypeDetails, TypeEnumVariant, TypeId, TypeSpace, TypeSpaceImpl, TypeSpacePatch,
    TypeSpaceSettings,
};

use crate::desc::{Op, RunDesc, SettingsDesc};
use crate::hashseed;
use crate::model::{self, Defs};
use crate::outscan::{self, Scan};
use crate::prng::fnv64;

use std::cell::RefCell;
use std::sync::atomic::{AtomicU64, Ordering};
use std::sync::Arc;

thread_local! {
    static TRACE_PROGRESS: std::cell::Cell<bool> = const { std::cell::Cell::new(false) };
    static MODEL_OFF: std::cell::Cell<bool> = const { std::cell::Cell::new(false) };
    static IS_VARIANT: std::cell::Cell<bool> = const { std::cell::Cell::new(false) };
    static PROGRESS: RefCell<Option<Arc<AtomicU64>>> = const { RefCell::new(None) };
}

pub const PHASE_CALL: u64 = 1;
pub const PHASE_RENDER: u64 = 2;
pub const PHASE_INSPECT: u64 = 3;
pub const PHASE_SNAPSHOT: u64 = 4;
pub const PHASE_MODEL: u64 = 5;

/// Publish where the simulated process is (read by the watchdog on a hang).
fn progress(step: usize, phase: u64, clean: bool, variant: bool) {
    if TRACE_PROGRESS.with(|t| t.get()) {
        // crash probe: the last line on stderr tells where the process died
        let line = format!("PROGRESS {step} {phase} {} {}\n", clean as u8, variant as u8);
        unsafe {
            libc::write(2, line.as_ptr() as *const libc::c_void, line.len());
        }
    }
    PROGRESS.with(|p| {
        if let Some(a) = p.borrow().as_ref() {
            let v = ((step as u64) << 16) | (phase << 8) | ((clean as u64) << 1) | (variant as u64);
            a.store(v, Ordering::Relaxed);
        }
    });
}

#[derive(Debug, Clone, Serialize, Deserialize, PartialEq)]
pub struct Event {
    pub step: usize,
    pub op: String,
    /// "ok" | "err:<variant>" | "panic:<class>" | "-"
    pub result: String,
    /// digest of the rendered output after the step (0 = not rendered)
    pub digest: u64,
}

#[derive(Debug, Clone, Serialize, Deserialize, PartialEq)]
pub struct Violation {
    pub invariant: String,
    pub key: String,
    pub step: usize,
    pub observed: String,
    pub expected: String,
}

/// Something to ask of the COMPILED output of a clean session (value stage of
/// C06): deserialise `input` into the named type and serialise it again
/// (`property-defaults`), or serialise `<T as Default>::default()`
/// (`type-default`); every expectation names a member ("" = the whole value),
/// the schema's default for it, and the class of the default site.
#[derive(Debug, Clone, Serialize, Deserialize, PartialEq)]
pub struct ValueProbe {
    pub type_name: String,
    pub kind: String,
    pub site: String,
    #[serde(default)]
    pub input: Option<Value>,
    /// (member, schema default, class of the site, the default with omitted
    /// members filled in from THEIR schema defaults)
    pub expect: Vec<(String, Value, String, Value)>,
}

#[derive(Debug, Clone, Default, Serialize)]
pub struct Outcome {
    pub events: Vec<Event>,
    pub violations: Vec<Violation>,
    pub probes: BTreeMap<String, u64>,
    pub canary: Vec<u32>,
    pub abstract_states: Vec<u64>,
    pub clean: bool,
    pub ingestions_ok: usize,
    pub faults_fired: usize,
    #[serde(skip)]
    pub final_output: Option<String>,
    /// last successful rendering, whatever the state
    #[serde(skip)]
    pub last_output: Option<String>,
    /// harness-level failure (not a verdict about typify)
    pub harness_error: Option<String>,
    /// questions for the value stage (clean top-level sessions only)
    #[serde(skip)]
    pub value_probes: Vec<ValueProbe>,
}

impl Outcome {
    pub fn probe(&mut self, k: &str) {
        *self.probes.entry(k.to_string()).or_insert(0) += 1;
    }
    pub fn log_digest(&self) -> u64 {
        let s = serde_json::to_string(&(&self.events, &self.violations, &self.canary)).unwrap();
        fnv64(s.as_bytes())
    }
}

pub fn build_settings(s: &SettingsDesc) -> TypeSpaceSettings {
    let mut settings = TypeSpaceSettings::default();
    settings.with_struct_builder(s.struct_builder);
    if let Some(m) = &s.type_mod {
        settings.with_type_mod(m);
    }
    for d in &s.derives {
        settings.with_derive(d.clone());
    }
    if let Some(m) = &s.map_type {
        settings.with_map_type(m.as_str());
    }
    for p in &s.patches {
        let mut patch = TypeSpacePatch::default();
        if let Some(r) = &p.rename {
            patch.with_rename(r);
        }
        for d in &p.derives {
            patch.with_derive(d);
        }
        settings.with_patch(&p.name, &patch);
    }
    for r in &s.replaces {
        settings.with_replacement(&r.name, &r.with, std::iter::empty::<TypeSpaceImpl>());
    }
    for c in &s.conversions {
        if let Ok(schema) = serde_json::from_value::<schemars::schema::SchemaObject>(c.schema.clone()) {
            settings.with_conversion(schema, &c.type_name, std::iter::empty::<TypeSpaceImpl>());
        }
    }
    settings
}

#[derive(Debug, Clone, PartialEq)]
struct Snapshot {
    name: String,
    ident: String,
    param_ident: String,
    details: String,
    children: Vec<TypeId>,
    by_value_children: Vec<TypeId>,
    is_box: bool,
    impls: [bool; 2],
    builder: Option<String>,
}

fn panic_message(e: Box<dyn std::any::Any + Send>) -> String {
    if let Some(s) = e.downcast_ref::<&str>() {
        s.to_string()
    } else if let Some(s) = e.downcast_ref::<String>() {
        s.clone()
    } else {
        "<non-string panic>".to_string()
    }
}

pub fn classify_panic(msg: &str) -> String {
    let m = msg.to_lowercase();
    if m.contains("default value could not be rendered") {
        "default-unrenderable".into()
    } else if m.contains("is missing") && m.contains("$ref") {
        "dangling-ref".into()
    } else if m.contains("external references") {
        "external-ref".into()
    } else if m.contains("not yet implemented") || m.contains("not implemented") {
        "todo".into()
    } else if m.contains("unreachable") {
        "unreachable".into()
    } else if let Some(i) = m.find("failed to make unique variant names for [") {
        // the colliding values are part of the identity of this failure
        let rest = &msg[i + "failed to make unique variant names for [".len()..];
        let list = rest.split(']').next().unwrap_or("");
        format!("variant-names({list})")
    } else if m.contains("unwrap") && m.contains("none") {
        "unwrap-none".into()
    } else {
        let short: String = m
            .chars()
            .filter(|c| c.is_ascii_alphanumeric() || *c == ' ')
            .take(32)
            .collect();
        format!("other({})", short.trim().replace(' ', "-"))
    }
}

fn id_num(id: &TypeId) -> String {
    // TypeId's Debug is `TypeId(n)`
    format!("{id:?}")
}

fn take_snapshot(ts: &TypeSpace, id: &TypeId) -> Result<Snapshot, String> {
    let r = catch_unwind(AssertUnwindSafe(|| -> Result<Snapshot, String> {
        let ty = ts.get_type(id).map_err(|e| format!("get_type: {e}"))?;
        let mut children = Vec::new();
        let mut by_value = Vec::new();
        let mut is_box = false;
        let details = match ty.details() {
            TypeDetails::Enum(e) => {
                let mut s = String::from("enum{");
                for v in e.variants_info() {
                    s.push_str(v.name);
                    match v.details {
                        TypeEnumVariant::Simple => {}
                        TypeEnumVariant::Tuple(ids) => {
                            s.push('(');
                            for i in ids {
                                s.push_str(&id_num(&i));
                                s.push(',');
                                children.push(i.clone());
                                by_value.push(i);
                            }
                            s.push(')');
                        }
                        TypeEnumVariant::Struct(props) => {
                            s.push('{');
                            for (n, i) in props {
                                s.push_str(&format!("{n}:{},", id_num(&i)));
                                children.push(i.clone());
                                by_value.push(i);
                            }
                            s.push('}');
                        }
                    }
                    s.push(';');
                }
                s.push('}');
                s
            }
            TypeDetails::Struct(st) => {
                let mut s = String::from("struct{");
                for p in st.properties_info() {
                    s.push_str(&format!(
                        "{}{}:{},",
                        p.name,
                        if p.required { "!" } else { "?" },
                        id_num(&p.type_id)
                    ));
                    children.push(p.type_id.clone());
                    by_value.push(p.type_id);
                }
                s.push('}');
                s
            }
            TypeDetails::Newtype(n) => {
                let i = n.inner();
                children.push(i.clone());
                by_value.push(i.clone());
                format!("newtype({})", id_num(&i))
            }
            TypeDetails::Option(i) => {
                children.push(i.clone());
                by_value.push(i.clone());
                format!("option({})", id_num(&i))
            }
            TypeDetails::Vec(i) => {
                children.push(i.clone());
                format!("vec({})", id_num(&i))
            }
            TypeDetails::Map(k, v) => {
                children.push(k.clone());
                children.push(v.clone());
                format!("map({},{})", id_num(&k), id_num(&v))
            }
            TypeDetails::Set(i) => {
                children.push(i.clone());
                format!("set({})", id_num(&i))
            }
            TypeDetails::Box(i) => {
                children.push(i.clone());
                is_box = true;
                format!("box({})", id_num(&i))
            }
            TypeDetails::Tuple(ids) => {
                let mut s = String::from("tuple(");
                for i in ids {
                    s.push_str(&id_num(&i));
                    s.push(',');
                    children.push(i.clone());
                    by_value.push(i);
                }
                s.push(')');
                s
            }
            TypeDetails::Array(i, n) => {
                children.push(i.clone());
                if n > 0 {
                    by_value.push(i.clone());
                }
                format!("array({},{n})", id_num(&i))
            }
            TypeDetails::Builtin(n) => format!("builtin({n})"),
            TypeDetails::Unit => "unit".into(),
            TypeDetails::String => "string".into(),
        };
        Ok(Snapshot {
            name: ty.name(),
            ident: ty.ident().to_string(),
            param_ident: ty.parameter_ident().to_string(),
            details,
            children,
            by_value_children: by_value,
            is_box,
            // has_impl(Default) is documented in the tree as non-terminating on
            // alias cycles (type_entry.rs, "lucky kludge"); C17 is not claimed.
            impls: [
                ty.has_impl(TypeSpaceImpl::FromStr),
                ty.has_impl(TypeSpaceImpl::Display),
            ],
            builder: ty.builder().map(|b| b.to_string()),
        })
    }));
    match r {
        Ok(r) => r,
        Err(e) => Err(format!("panic: {}", panic_message(e))),
    }
}

#[derive(Debug, Clone)]
enum CallResult {
    Ok(Option<TypeId>),
    Err(String),
    Panic(String),
}

impl CallResult {
    fn tag(&self) -> String {
        match self {
            CallResult::Ok(_) => "ok".into(),
            CallResult::Err(e) => format!("err:{e}"),
            CallResult::Panic(m) => format!("panic:{}", classify_panic(m)),
        }
    }
    fn is_ok(&self) -> bool {
        matches!(self, CallResult::Ok(_))
    }
}

fn err_variant(e: &typify_impl::Error) -> String {
    match e {
        typify_impl::Error::BadValue(..) => "BadValue".into(),
        typify_impl::Error::InvalidTypeId => "InvalidTypeId".into(),
        typify_impl::Error::InvalidValue => "InvalidValue".into(),
        typify_impl::Error::InvalidSchema { .. } => "InvalidSchema".into(),
    }
}

fn to_schema(v: &Value) -> Result<Schema, String> {
    serde_json::from_value::<Schema>(v.clone()).map_err(|e| format!("schema does not parse: {e}"))
}

struct Session<'d> {
    #[allow(dead_code)]
    desc_settings: &'d SettingsDesc,
    ts: TypeSpace,
    defs: Defs,
    /// definitions in delivery order (name, op index)
    def_order: Vec<String>,
    promised: BTreeMap<TypeId, Snapshot>,
    /// the `$ref` id of every definition as last observed by the client
    def_ids: BTreeMap<String, TypeId>,
    results: Vec<Option<CallResult>>,
    clean: bool,
    last_scan: Option<Scan>,
    last_render: Option<String>,
    /// structural problems already reported (a persisting duplicate is one finding)
    reported_problems: BTreeSet<String>,
    out: Outcome,
    only_model_acyclic: bool,
    /// schemas delivered through add_type / titled roots (for finding keys)
    extra_schemas: Vec<Value>,
    /// a call failed while delivering definitions with a by-value cycle: the
    /// space may hold unbroken cycles, on which rendering and has_impl do not
    /// terminate; only ids promised before the fault are looked at from here on
    tainted: bool,
    conflicted: BTreeSet<String>,
    model_off: bool,
    last_titled_root: Option<Value>,
    latest_delivery: BTreeMap<usize, CallResult>,
    is_variant: bool,
    step_now: usize,
    /// uses_chrono / uuid / serde_json / regress as last observed
    last_uses: [bool; 4],
    /// titled add_type schemas (exact text) and the id their first delivery returned
    titled_seen: BTreeMap<String, TypeId>,
}

fn op_sources<'a>(ops: &'a [Op], idx: usize) -> &'a Op {
    match &ops[idx] {
        Op::ReAdd { of } if *of < idx => op_sources(ops, *of),
        other => other,
    }
}

impl<'d> Session<'d> {
    fn new(settings: &'d SettingsDesc) -> Self {
        let ts = TypeSpace::new(&build_settings(settings));
        Session {
            desc_settings: settings,
            ts,
            defs: Defs::new(),
            def_order: Vec::new(),
            promised: BTreeMap::new(),
            def_ids: BTreeMap::new(),
            results: Vec::new(),
            clean: true,
            last_scan: None,
            last_render: None,
            reported_problems: BTreeSet::new(),
            out: Outcome {
                clean: true,
                ..Default::default()
            },
            only_model_acyclic: true,
            extra_schemas: Vec::new(),
            tainted: false,
            conflicted: BTreeSet::new(),
            model_off: false,
            last_titled_root: None,
            latest_delivery: BTreeMap::new(),
            is_variant: false,
            step_now: 0,
            last_uses: [false; 4],
            titled_seen: BTreeMap::new(),
        }
    }

    fn at(&mut self, step: usize, phase: u64) {
        self.step_now = step;
        progress(step, phase, self.clean, self.is_variant);
    }

    fn violate(&mut self, inv: &str, key: String, step: usize, observed: String, expected: &str) {
        self.out.violations.push(Violation {
            invariant: inv.to_string(),
            key,
            step,
            observed,
            expected: expected.to_string(),
        });
    }

    fn op_defs(op: &Op) -> Vec<(String, Value)> {
        match op {
            Op::AddRefTypes { defs, .. } => defs.clone(),
            Op::AddRootSchema { doc, .. } => doc
                .get("definitions")
                .and_then(|d| d.as_object())
                .map(|d| d.iter().map(|(k, v)| (k.clone(), v.clone())).collect())
                .unwrap_or_default(),
            _ => Vec::new(),
        }
    }

    /// The schemas an add op delivers, for the model (name/path, schema).
    fn op_schemas(op: &Op) -> Vec<(String, Value)> {
        match op {
            Op::AddRefTypes { defs, .. } => defs
                .iter()
                .map(|(n, s)| (format!("#/definitions/{n}"), s.clone()))
                .collect(),
            Op::AddRootSchema { doc, .. } => {
                let mut v: Vec<(String, Value)> = Self::op_defs(op)
                    .into_iter()
                    .map(|(n, s)| (format!("#/definitions/{n}"), s))
                    .collect();
                if doc.get("title").is_some() {
                    let mut root = doc.clone();
                    if let Some(o) = root.as_object_mut() {
                        o.remove("definitions");
                        o.remove("$schema");
                    }
                    v.push(("#".to_string(), root));
                }
                v
            }
            Op::AddType { schema, .. } => vec![("#".to_string(), schema.clone())],
            _ => Vec::new(),
        }
    }

    fn call(&mut self, op: &Op) -> CallResult {
        progress(self.step_now, PHASE_CALL, self.clean, self.is_variant);
        let ts = &mut self.ts;
        let r = catch_unwind(AssertUnwindSafe(|| -> Result<CallResult, String> {
            Ok(match op {
                Op::AddRefTypes { defs, .. } => {
                    let mut parsed = Vec::new();
                    for (n, s) in defs {
                        parsed.push((n.clone(), to_schema(s)?));
                    }
                    match ts.add_ref_types(parsed) {
                        Ok(()) => CallResult::Ok(None),
                        Err(e) => CallResult::Err(err_variant(&e)),
                    }
                }
                Op::AddRootSchema { doc, .. } => {
                    let root: RootSchema = serde_json::from_value(doc.clone())
                        .map_err(|e| format!("root schema does not parse: {e}"))?;
                    match ts.add_root_schema(root) {
                        Ok(id) => CallResult::Ok(id),
                        Err(e) => CallResult::Err(err_variant(&e)),
                    }
                }
                Op::AddType { schema, hint, .. } => {
                    let s = to_schema(schema)?;
                    match ts.add_type_with_name(&s, hint.clone()) {
                        Ok(id) => CallResult::Ok(Some(id)),
                        Err(e) => CallResult::Err(err_variant(&e)),
                    }
                }
                _ => unreachable!("call() on a non-add op"),
            })
        }));
        match r {
            Ok(Ok(c)) => c,
            Ok(Err(h)) => {
                self.out.harness_error = Some(h.clone());
                CallResult::Err(format!("harness:{h}"))
            }
            Err(e) => CallResult::Panic(panic_message(e)),
        }
    }

    /// I1 + I2 over every promised id; also extends the promise to ids newly
    /// reachable from promised ones.
    fn check_promises(&mut self, step: usize) {
        self.at(step, PHASE_SNAPSHOT);
        let ids: Vec<TypeId> = self.promised.keys().cloned().collect();
        for id in ids {
            match take_snapshot(&self.ts, &id) {
                Err(e) => {
                    let key = if e.starts_with("panic") {
                        "promised-id-panics".to_string()
                    } else {
                        "promised-id-unresolvable".to_string()
                    };
                    self.violate(
                        "I2",
                        key,
                        step,
                        format!("{}: {e}", id_num(&id)),
                        "promised ids resolve and answer without panicking",
                    );
                }
                Ok(now) => {
                    let then = &self.promised[&id];
                    if &now != then {
                        let field = if now.name != then.name {
                            "name"
                        } else if now.ident != then.ident || now.param_ident != then.param_ident {
                            "ident"
                        } else if now.details != then.details {
                            "structure"
                        } else if now.impls != then.impls {
                            "impls"
                        } else {
                            "builder"
                        };
                        let observed = format!(
                            "{} was name={} ident={} details={} impls={:?}; now name={} ident={} details={} impls={:?}",
                            id_num(&id),
                            then.name,
                            then.ident,
                            then.details,
                            then.impls,
                            now.name,
                            now.ident,
                            now.details,
                            now.impls
                        );
                        self.violate(
                            "I1",
                            format!("promised-changed:{field}"),
                            step,
                            observed,
                            "a returned id keeps its name, identifier and structure",
                        );
                        // re-promise the new state so one change is reported once
                        self.promised.insert(id.clone(), now);
                    }
                }
            }
        }
    }

    fn promise(&mut self, id: &TypeId, step: usize) {
        if self.tainted {
            self.out.probe("post_fault.promise_skipped_tainted");
            return;
        }
        if !self.clean {
            // After a failed call the tree documents the space as undefined;
            // the only clause that can be stated soundly is that ids handed out
            // BEFORE the fault keep their meaning. Ids obtained afterwards are
            // observed (resolve / panic) but never judged.
            if !self.promised.contains_key(id) {
                match take_snapshot(&self.ts, id) {
                    Ok(_) => self.out.probe("post_fault.new_id_resolves"),
                    Err(e) if e.starts_with("panic") => self.out.probe("post_fault.new_id_panics"),
                    Err(_) => self.out.probe("post_fault.new_id_unresolvable"),
                }
            }
            return;
        }
        self.at(step, PHASE_SNAPSHOT);
        let mut stack = vec![id.clone()];
        while let Some(i) = stack.pop() {
            if self.promised.contains_key(&i) {
                continue;
            }
            match take_snapshot(&self.ts, &i) {
                Ok(s) => {
                    stack.extend(s.children.iter().cloned());
                    self.promised.insert(i, s);
                }
                Err(e) => {
                    let key = if e.starts_with("panic") {
                        "returned-id-panics".to_string()
                    } else {
                        "returned-id-unresolvable".to_string()
                    };
                    self.violate(
                        "I2",
                        key,
                        step,
                        format!("{}: {e}", id_num(&i)),
                        "every id handed to the client resolves",
                    );
                }
            }
        }
    }

    /// Render + structural oracle. Returns the rendered text when it could be
    /// produced. `enforce` = the history is clean, so I3/I4/I5/I10 apply.
    fn render_check(&mut self, step: usize, opkind: &str, enforce: bool) -> Option<String> {
        if self.tainted {
            self.out.probe("post_fault_render.skipped_tainted");
            return None;
        }
        self.at(step, PHASE_RENDER);
        let ts = &self.ts;
        let r = catch_unwind(AssertUnwindSafe(|| {
            let a = ts.to_stream();
            let b = ts.to_stream();
            (a.to_string(), b.to_string(), a)
        }));
        match r {
            Err(e) => {
                let msg = panic_message(e);
                if enforce {
                    let class = classify_panic(&msg);
                    let key = if self.default_classes() == "no-defaults" {
                        format!("render-panic:{class}|no-defaults")
                    } else {
                        format!("render-panic:{class}|?")
                    };
                    self.violate(
                        "I3",
                        key,
                        step,
                        format!("to_stream() panicked: {msg}"),
                        "rendering after successful ingestion never panics",
                    );
                } else {
                    self.out.probe("post_fault_render.panicked");
                }
                None
            }
            Ok((a, b, stream)) => {
                if a != b {
                    if enforce {
                        self.violate(
                            "I10",
                            "render-twice-differs".into(),
                            step,
                            format!("two to_stream() calls differ (digests {:x} vs {:x})", fnv64(a.as_bytes()), fnv64(b.as_bytes())),
                            "repeated rendering of one type space returns the same tokens",
                        );
                    } else {
                        self.out.probe("post_fault_render.twice_differs");
                    }
                }
                match outscan::scan(stream) {
                    Err(e) => {
                        if enforce {
                            let dclass = if self.default_classes() == "no-defaults" {
                                "no-defaults"
                            } else {
                                "?"
                            };
                            self.violate(
                                "I3",
                                format!("unparseable|{dclass}"),
                                step,
                                format!("output does not parse as a file: {e}"),
                                "output parses as a Rust file",
                            );
                        } else {
                            self.out.probe("post_fault_render.unparseable");
                        }
                    }
                    Ok(scan) => {
                        if enforce {
                            let mut seen = BTreeSet::new();
                            for (kind, what) in scan.structural_problems() {
                                if !self.reported_problems.insert(format!("{kind} {what}")) {
                                    continue;
                                }
                                // a duplicate that arises because a definition carries the very
                                // name typify generates for an inline child of another definition
                                // (`Foo` with an inline object property `bar`, and a definition
                                // `FooBar`) is its own finding
                                let child_collision: Option<&'static str> = if matches!(kind.as_str(), "dup-item" | "dup-impl") {
                                    what.split(|c: char| !(c.is_ascii_alphanumeric() || c == '_'))
                                        .filter(|t| !t.is_empty())
                                        .find_map(|t| self.child_name_collides_with_definition(t))
                                } else {
                                    None
                                };
                                let (inv, key) = match kind.as_str() {
                                    "unresolved" => ("I5", format!("unresolved:{opkind}")),
                                    k if child_collision.is_some() => ("I4", format!("{k}:child-name-equals-definition:{}:{opkind}", child_collision.unwrap())),
                                    k => ("I4", format!("{k}:{opkind}")),
                                };
                                if seen.insert(key.clone()) {
                                    self.violate(
                                        inv,
                                        key,
                                        step,
                                        format!("{kind}: {what}"),
                                        "no duplicate or unresolved names in the output",
                                    );
                                }
                            }
                            // `with_type_mod(m)` is for code OUTSIDE the generated module
                            // (Type::ident() prefixes names with it); the module's own items
                            // refer to one another without it - no module `m` exists in there
                            if let Some(m) = &self.desc_settings.type_mod {
                                let needle = format!("{m} :: ");
                                let mut from = 0;
                                while let Some(off) = a[from..].find(&needle) {
                                    let at = from + off;
                                    let before = a[..at].trim_end().chars().last();
                                    let path_start = !matches!(before, Some(c) if c.is_ascii_alphanumeric() || c == '_' || c == ':' || c == '"');
                                    if path_start {
                                        if self.reported_problems.insert(format!("type_mod path {m}")) {
                                            let ctx: String = a[at.saturating_sub(60)..].chars().take(140).collect();
                                            self.violate(
                                                "I5",
                                                format!("unresolved:{opkind}"),
                                                step,
                                                format!("unresolved: a path starts with the type_mod `{m}::` inside the generated module: …{ctx}…"),
                                                "no duplicate or unresolved names in the output",
                                            );
                                        }
                                        break;
                                    }
                                    from = at + needle.len();
                                }
                            }
                            // the dependency flags (uses_chrono() ...) are observed, not judged:
                            // no listed property speaks about them (C01 counts serde_json among
                            // the dependencies the output may always use)
                            if self.desc_settings.replaces.is_empty() && self.desc_settings.conversions.is_empty() {
                                let flags = [
                                    ("chrono", self.ts.uses_chrono()),
                                    ("uuid", self.ts.uses_uuid()),
                                    ("serde_json", self.ts.uses_serde_json()),
                                    ("regress", self.ts.uses_regress()),
                                ];
                                for (i, (krate, flag)) in flags.iter().enumerate() {
                                    if a.contains(&format!(":: {krate} ::")) && !flag {
                                        self.out.probe(&format!("observed.output_names_crate_but_uses_flag_false.{krate}"));
                                    }
                                    if self.last_uses[i] && !flag {
                                        self.out.probe(&format!("observed.uses_flag_lost.{krate}"));
                                    }
                                    self.last_uses[i] = *flag;
                                }
                            }
                            // I7 on the OUTPUT: whatever the API says about Boxes, the
                            // rendered definitions themselves must not contain one another by value
                            if let Some(cyc) = &scan.by_value_cycle {
                                if self.reported_problems.insert(format!("outcycle {}", cyc.join(">"))) {
                                    self.violate(
                                        "I7",
                                        "unboxed-cycle-in-output".to_string(),
                                        step,
                                        format!("the rendered definitions contain one another by value: {}", cyc.join(" -> ")),
                                        "every containment cycle in the output passes through a Box, Vec or map",
                                    );
                                }
                            }
                        } else {
                            self.out.probe("post_fault_render.parsed");
                            if !scan.dup_items.is_empty() {
                                self.out.probe("post_fault_render.duplicate_items");
                            }
                            if !scan.unresolved.is_empty() {
                                self.out.probe("post_fault_render.unresolved");
                            }
                        }
                        // an item that was rendered before is rendered the same way now
                        // (later, unrelated calls do not change what earlier calls defined)
                        if enforce {
                            if let Some(prev) = &self.last_scan {
                                for (k, old_texts) in &prev.items {
                                    if old_texts.len() != 1 {
                                        continue;
                                    }
                                    if let Some(new_texts) = scan.items.get(k) {
                                        if new_texts.len() == 1 && new_texts[0] != old_texts[0] {
                                            if self.reported_problems.insert(format!("changed {k}")) {
                                                let pos = old_texts[0].chars().zip(new_texts[0].chars()).position(|(x, y)| x != y).unwrap_or(0);
                                                let cut = |t: &str| -> String { t.chars().skip(pos.saturating_sub(60)).take(160).collect() };
                                                self.violate(
                                                    "I1",
                                                    format!("rendered-item-changed:{opkind}"),
                                                    step,
                                                    format!("{k}: was `…{}…`, now `…{}…`", cut(&old_texts[0]), cut(&new_texts[0])),
                                                    "what earlier calls defined keeps its structure after later calls",
                                                );
                                            }
                                            break;
                                        }
                                    } else if !k.contains("::impl") && self.reported_problems.insert(format!("vanished {k}")) {
                                        self.violate(
                                            "I1",
                                            format!("rendered-item-vanished:{opkind}"),
                                            step,
                                            format!("{k} was rendered before this call and is gone now"),
                                            "what earlier calls defined stays defined",
                                        );
                                        break;
                                    }
                                }
                            }
                        }
                        self.last_scan = Some(scan);
                    }
                }
                self.last_render = Some(a.clone());
                Some(a)
            }
        }
    }

    /// classes of all `default` annotations delivered so far (for finding keys)
    fn default_classes(&self) -> String {
        let mut set = BTreeSet::new();
        for (n, s) in &self.defs {
            for site in model::default_sites(s, n, &self.defs) {
                set.insert(site.class);
            }
        }
        for s in &self.extra_schemas {
            for site in model::default_sites(s, "#", &self.defs) {
                set.insert(site.class);
            }
        }
        if set.is_empty() {
            "no-defaults".into()
        } else {
            set.into_iter().collect::<Vec<_>>().join("+")
        }
    }

    fn lookup_def_id(&mut self, name: &str) -> Result<TypeId, String> {
        let schema = to_schema(&json!({"$ref": format!("#/definitions/{name}")}))?;
        let ts = &mut self.ts;
        match catch_unwind(AssertUnwindSafe(|| ts.add_type(&schema))) {
            Ok(Ok(id)) => Ok(id),
            Ok(Err(e)) => Err(format!("err:{}", err_variant(&e))),
            Err(e) => Err(format!("panic:{}", classify_panic(&panic_message(e)))),
        }
    }

    /// Is `name` both the type name of a definition and the name typify derives
    /// for an inline (untitled) object/enum property of another definition?
    /// Some("child-first") when the parent (and so its child) is converted before the
    /// definition of that name, Some("def-first") when the definition comes first
    /// (definitions of one call are converted in key order).
    fn child_name_collides_with_definition(&self, name: &str) -> Option<&'static str> {
        // a patch renames BOTH the definition and the colliding child
        let original: Option<&str> = self
            .desc_settings
            .patches
            .iter()
            .find(|p| p.rename.as_deref() == Some(name))
            .map(|p| p.name.as_str());
        let name = original.unwrap_or(name);
        let def_key: &String = self.defs.keys().find(|k| crate::gen::pascal(k) == name)?;
        self.defs.iter().find_map(|(pn, ps)| {
            let props = ps.get("properties").and_then(|p| p.as_object())?;
            let hit = props.iter().any(|(prop, sch)| {
                let inline_named = sch.get("title").is_none()
                    && sch.get("$ref").is_none()
                    && ((sch.get("type") == Some(&json!("object")) && sch.get("properties").is_some()) || (sch.get("type") == Some(&json!("string")) && sch.get("enum").is_some()));
                inline_named && crate::gen::pascal(&format!("{}_{}", crate::gen::pascal(pn), prop)) == name
            });
            if hit {
                Some(if def_key < pn { "def-first" } else { "child-first" })
            } else {
                None
            }
        })
    }

    /// Value probes for every named type whose schema the model knows:
    /// definitions, hinted add_type schemas and titled roots.
    fn build_value_probes(&mut self, ops: &[Op]) {
        let mut targets: Vec<(String, Value, String)> = Vec::new();
        let type_name = |ts: &TypeSpace, id: &TypeId| -> Option<String> {
            catch_unwind(AssertUnwindSafe(|| ts.get_type(id).ok().map(|t| t.name()))).ok().flatten()
        };
        for n in self.def_order.clone() {
            if n.starts_with("#root#") || self.conflicted.contains(&n) {
                continue;
            }
            let Some(sch) = self.defs.get(&n).cloned() else { continue };
            if let Ok(id) = self.lookup_def_id(&n) {
                if let Some(name) = type_name(&self.ts, &id) {
                    targets.push((name, sch, format!("definition {n}")));
                }
            }
        }
        for (i, op) in ops.iter().enumerate() {
            let Some(Some(CallResult::Ok(Some(id)))) = self.results.get(i) else { continue };
            match op {
                Op::AddType { schema, hint: Some(h), poison: None } => {
                    if let Some(name) = type_name(&self.ts, id) {
                        targets.push((name, schema.clone(), format!("add_type_with_name hint {h}")));
                    }
                }
                Op::AddRootSchema { doc, poison: None } if doc.get("title").is_some() => {
                    let mut root = doc.clone();
                    if let Some(o) = root.as_object_mut() {
                        o.remove("definitions");
                        o.remove("$schema");
                    }
                    if serde_json::to_string(&root).map(|t| t.contains("\"$ref\":\"#\"")).unwrap_or(true) {
                        continue;
                    }
                    if let Some(name) = type_name(&self.ts, id) {
                        targets.push((name, root, "titled root".to_string()));
                    }
                }
                _ => {}
            }
        }
        // one name, two different schemas (a hint used twice, a hint that names a
        // definition): typify keeps the first by name; which schema the type has
        // is the business of other invariants, no value is predicted here
        let mut schemas_of: BTreeMap<String, BTreeSet<String>> = BTreeMap::new();
        for (name, sch, _) in &targets {
            schemas_of.entry(name.clone()).or_default().insert(sch.to_string());
        }
        targets.retain(|(name, _, _)| schemas_of.get(name).map(|s| s.len() == 1).unwrap_or(false));
        let defs = self.defs.clone();
        // recursive types: a default that omits a member of the very type it
        // belongs to unfolds for ever once nested defaults are filled in (the
        // schema itself is paradoxical); no value is predicted for types that
        // reach a reference cycle
        let mut reach: BTreeMap<String, BTreeSet<String>> = BTreeMap::new();
        for (n, sch) in &defs {
            reach.insert(n.clone(), model::ref_targets(sch));
        }
        loop {
            let mut grew = false;
            let snapshot = reach.clone();
            for (_, tos) in reach.iter_mut() {
                let more: BTreeSet<String> = tos.iter().flat_map(|t| snapshot.get(t).cloned().unwrap_or_default()).collect();
                for m in more {
                    grew |= tos.insert(m);
                }
            }
            if !grew {
                break;
            }
        }
        let cyclic: BTreeSet<String> = reach.iter().filter(|(n, tos)| tos.contains(*n)).map(|(n, _)| n.clone()).collect();
        let before = targets.len();
        targets.retain(|(_, sch, _)| {
            let direct = model::ref_targets(sch);
            !direct.iter().any(|t| cyclic.contains(t) || reach.get(t).map(|r| r.iter().any(|x| cyclic.contains(x))).unwrap_or(false))
        });
        for _ in targets.len()..before {
            self.out.probe("value_probe.recursive_type_skipped");
        }
        let strip = |v: &Value| -> Value {
            let mut v = v.clone();
            if let Some(o) = v.as_object_mut() {
                o.remove("default");
            }
            v
        };
        let mut seen: BTreeSet<(String, String)> = BTreeSet::new();
        for (name, sch, site) in targets {
            // ---- the Default impl of the named type
            if let Some(d) = sch.get("default") {
                let stripped = strip(&sch);
                if model::validate(&stripped, d, &defs, 0) == Some(true) && seen.insert((name.clone(), "type-default".into())) {
                    self.out.value_probes.push(ValueProbe {
                        type_name: name.clone(),
                        kind: "type-default".into(),
                        site: site.clone(),
                        input: None,
                        expect: vec![(String::new(), d.clone(), model::site_class(&stripped, d, &defs), model::fill_nested_defaults(d, &stripped, &defs, 0))],
                    });
                }
            }
            // ---- serde defaults of missing properties
            let plain_object = sch.get("type") == Some(&json!("object"))
                && ["oneOf", "anyOf", "allOf", "not", "$ref"].iter().all(|k| sch.get(*k).is_none())
                && !matches!(sch.get("additionalProperties"), Some(Value::Object(_)));
            let Some(props) = sch.get("properties").and_then(|p| p.as_object()) else { continue };
            if !plain_object {
                continue;
            }
            let required: BTreeSet<String> = sch
                .get("required")
                .and_then(|r| r.as_array())
                .map(|r| r.iter().filter_map(|x| x.as_str().map(|x| x.to_string())).collect())
                .unwrap_or_default();
            let mut rng = crate::prng::Rng::new(fnv64(name.as_bytes()));
            let mut input = serde_json::Map::new();
            let mut buildable = true;
            for r in &required {
                match props.get(r) {
                    Some(ps) => match crate::gen::gen_instance(&mut rng, &strip(ps), &defs, 0) {
                        Some(v) => {
                            input.insert(r.clone(), v);
                        }
                        None => buildable = false,
                    },
                    None => {
                        input.insert(r.clone(), json!(1));
                    }
                }
            }
            if !buildable {
                self.out.probe("value_probe.required_member_not_buildable");
                continue;
            }
            let mut expect = Vec::new();
            for (p, ps) in props {
                if required.contains(p) {
                    continue;
                }
                if let Some(d) = ps.get("default") {
                    let stripped = strip(ps);
                    if model::validate(&stripped, d, &defs, 0) == Some(true) {
                        expect.push((p.clone(), d.clone(), model::site_class(&stripped, d, &defs), model::fill_nested_defaults(d, &stripped, &defs, 0)));
                    }
                }
            }
            if !expect.is_empty() && seen.insert((name.clone(), "property-defaults".into())) {
                if required.is_empty() && self.desc_settings.struct_builder {
                    // the builder's initial values: `T::builder().try_into()`
                    self.out.value_probes.push(ValueProbe {
                        type_name: name.clone(),
                        kind: "builder-defaults".into(),
                        site: site.clone(),
                        input: None,
                        expect: expect.clone(),
                    });
                }
                self.out.value_probes.push(ValueProbe {
                    type_name: name,
                    kind: "property-defaults".into(),
                    site,
                    input: Some(Value::Object(input)),
                    expect,
                });
            }
        }
    }

    /// I7 + I8 through the public API.
    fn inspect(&mut self, step: usize) {
        if self.tainted {
            self.out.probe("post_fault.inspect_skipped_tainted");
            return;
        }
        self.at(step, PHASE_INSPECT);
        let names: Vec<String> = self.def_order.clone();
        for n in &names {
            match self.lookup_def_id(n) {
                Ok(id) => {
                    if let Some(prev) = self.def_ids.get(n) {
                        if prev != &id && self.clean {
                            // reported by I6 at the ReAdd that caused it; here only counted
                            self.out.probe("def_id_changed_seen_at_inspect");
                        }
                    }
                    self.def_ids.insert(n.clone(), id.clone());
                    self.promise(&id, step);
                }
                Err(e) => {
                    if self.clean {
                        self.violate(
                            "I2",
                            "definition-not-addressable".into(),
                            step,
                            format!("add_type($ref {n}) -> {e}"),
                            "an added definition can be referenced",
                        );
                    } else {
                        self.out.probe("post_fault_ref_lookup_failed");
                    }
                }
            }
        }
        if !self.clean {
            return;
        }
        // I7: by-value graph over everything reachable is acyclic
        let mut colour: BTreeMap<TypeId, u8> = BTreeMap::new();
        let mut boxes = 0usize;
        let mut cyc: Option<Vec<String>> = None;
        let snaps_owned = self.promised.clone();
        let snaps = &snaps_owned;
        for start in snaps.keys() {
            if colour.get(start).copied().unwrap_or(0) != 0 {
                continue;
            }
            let mut stack: Vec<(TypeId, Vec<TypeId>)> =
                vec![(start.clone(), snaps[start].by_value_children.clone())];
            colour.insert(start.clone(), 1);
            while let Some((node, children)) = stack.last_mut() {
                if let Some(c) = children.pop() {
                    match colour.get(&c).copied().unwrap_or(0) {
                        1 => {
                            if cyc.is_none() {
                                let mut path: Vec<String> = stack
                                    .iter()
                                    .map(|(n, _)| format!("{}", snaps[n].name))
                                    .collect();
                                path.push(snaps.get(&c).map(|s| s.name.clone()).unwrap_or_default());
                                cyc = Some(path);
                            }
                        }
                        2 => {}
                        _ => {
                            if let Some(s) = snaps.get(&c) {
                                colour.insert(c.clone(), 1);
                                stack.push((c, s.by_value_children.clone()));
                            }
                        }
                    }
                } else {
                    colour.insert(node.clone(), 2);
                    stack.pop();
                }
            }
        }
        for s in snaps.values() {
            if s.is_box {
                boxes += 1;
            }
        }
        if let Some(path) = cyc {
            self.violate(
                "I7",
                "unboxed-cycle".into(),
                step,
                format!("by-value containment cycle: {}", path.join(" -> ")),
                "every containment cycle passes through a heap indirection",
            );
        }
        let model_cyclic = model::has_cycle(&model::by_value_graph(&self.defs));
        if model_cyclic {
            self.out.probe("model_cyclic_state");
            self.only_model_acyclic = false;
        }
        if boxes > 0 {
            self.out.probe("state_with_box");
            if !model_cyclic && !self.model_off {
                let names: Vec<String> = snaps
                    .values()
                    .filter(|s| s.is_box)
                    .map(|s| s.name.clone())
                    .collect();
                self.violate(
                    "I8",
                    "needless-box".into(),
                    step,
                    format!("Box types present ({}) although the definitions contain no by-value cycle", names.join(", ")),
                    "no boxed member without a containment cycle",
                );
            }
        }
    }

    fn abstract_state(&self) -> u64 {
        let names = self
            .last_scan
            .as_ref()
            .map(|s| s.root_type_names.iter().cloned().collect::<Vec<_>>().join(","))
            .unwrap_or_default();
        fnv64(
            format!(
                "{names}|{}|{}|{}",
                self.promised.len(),
                self.clean,
                self.defs.len()
            )
            .as_bytes(),
        )
    }
}

/// Result of running one op list in one simulated process.
pub fn run_ops(settings: &SettingsDesc, ops: &[Op], faults_mode: bool) -> Outcome {
    run_ops_inner(settings, ops, faults_mode, true)
}

pub fn run_ops_variant(settings: &SettingsDesc, ops: &[Op], faults_mode: bool) -> Outcome {
    IS_VARIANT.with(|v| v.set(true));
    run_ops_inner(settings, ops, faults_mode, true)
}

/// The same run with every default annotation removed (value stage: does the
/// output compile without the defaults?).
pub fn without_defaults(desc: &RunDesc) -> RunDesc {
    let mut d = desc.clone();
    d.ops = strip_ops(&desc.ops, &|_, _, _| false);
    d.variant = None;
    d
}

fn strip_ops(ops: &[Op], keep: &dyn Fn(&str, &str, Option<bool>) -> bool) -> Vec<Op> {
    // the model's definition map over the whole history (for class computation)
    let mut defs = Defs::new();
    for op in ops {
        for (n, s) in Session::op_defs(op) {
            defs.insert(n, s);
        }
    }
    ops.iter()
        .map(|op| match op {
            Op::AddRefTypes { defs: d, poison } if poison.is_none() => Op::AddRefTypes {
                defs: d
                    .iter()
                    .map(|(n, s)| (n.clone(), model::strip_defaults_by(s, &defs, keep)))
                    .collect(),
                poison: None,
            },
            Op::AddRootSchema { doc, poison } if poison.is_none() => Op::AddRootSchema {
                doc: model::strip_defaults_by(doc, &defs, keep),
                poison: None,
            },
            Op::AddType { schema, hint, poison } if poison.is_none() => Op::AddType {
                schema: model::strip_defaults_by(schema, &defs, keep),
                hint: hint.clone(),
                poison: None,
            },
            other => other.clone(),
        })
        .collect()
}

/// Attribute a violation whose key ends in `|?` to the class(es) of default
/// that reproduce it in isolation: the history so far is re-run with every
/// other default annotation removed.
fn attribute_by_isolation(
    settings: &SettingsDesc,
    ops_so_far: &[Op],
    faults_mode: bool,
    inv: &str,
    key_prefix: &str,
) -> String {
    let mut defs = Defs::new();
    let mut classes = BTreeSet::new();
    for op in ops_so_far {
        for (n, s) in Session::op_defs(op) {
            defs.insert(n, s);
        }
    }
    for op in ops_so_far {
        for (p, sch) in Session::op_schemas(op) {
            for site in model::default_sites(&sch, &p, &defs) {
                classes.insert(site.class);
            }
        }
    }
    let reproduces = |ops: &[Op]| -> bool {
        let o = run_ops_inner(settings, ops, faults_mode, false);
        o.violations
            .iter()
            .any(|v| v.invariant == inv && v.key.starts_with(key_prefix))
    };
    if reproduces(&strip_ops(ops_so_far, &|_, _, _| false)) {
        return "no-defaults".into();
    }
    let mut culprits = Vec::new();
    for c in &classes {
        if reproduces(&strip_ops(ops_so_far, &|_, class, _| class == c.as_str())) {
            culprits.push(c.clone());
        }
    }
    if culprits.is_empty() {
        format!("multi({})", classes.into_iter().collect::<Vec<_>>().join("+"))
    } else {
        culprits.join("+")
    }
}

fn resolve_placeholders(out: &mut Outcome, settings: &SettingsDesc, ops_so_far: &[Op], faults_mode: bool) {
    for i in 0..out.violations.len() {
        if out.violations[i].key.ends_with("|?") {
            let key = out.violations[i].key.clone();
            let prefix = key.trim_end_matches('?').to_string();
            let inv = out.violations[i].invariant.clone();
            let who = attribute_by_isolation(settings, ops_so_far, faults_mode, &inv, &prefix);
            out.violations[i].key = format!("{prefix}{who}");
        }
    }
}

fn run_ops_inner(settings: &SettingsDesc, ops: &[Op], faults_mode: bool, attribute: bool) -> Outcome {
    let mut s = Session::new(settings);
    s.is_variant = IS_VARIANT.with(|v| v.get());
    s.model_off = MODEL_OFF.with(|v| v.get());
    s.out.canary = hashseed::canary();
    for (step, op) in ops.iter().enumerate() {
        let mut digest = 0u64;
        let mut result_tag = "-".to_string();
        match op {
            Op::Render => {
                let enforce = s.clean;
                if let Some(text) = s.render_check(step, "Render", enforce) {
                    digest = fnv64(text.as_bytes());
                }
            }
            Op::Inspect => {
                s.inspect(step);
            }
            Op::ReAdd { of } if *of >= step => {
                s.out.harness_error = Some(format!("step {step}: ReAdd of later op {of}"));
            }
            _ => {
                let (src, is_readd) = match op {
                    Op::ReAdd { of } => (op_sources(ops, *of).clone(), true),
                    o => (o.clone(), false),
                };
                let source_index = {
                    let mut i = step;
                    while let Op::ReAdd { of } = &ops[i] {
                        if *of >= i {
                            break;
                        }
                        i = *of;
                    }
                    i
                };
                if !src.is_add() {
                    // ReAdd of an observer: nothing to deliver
                    s.results.push(None);
                    s.out.events.push(Event {
                        step,
                        op: op.kind().into(),
                        result: "-".into(),
                        digest: 0,
                    });
                    s.check_promises(step);
                    continue;
                }
                let titled_root = match &src {
                    Op::AddRootSchema { doc, .. } if doc.get("title").is_some() => {
                        let mut root = doc.clone();
                        if let Some(o) = root.as_object_mut() {
                            o.remove("definitions");
                        }
                        Some(root)
                    }
                    _ => None,
                };
                let opkind = if is_readd {
                    // typify keeps one slot for "the" root schema: a titled root
                    // re-delivered after a different titled root is its own case
                    match (&titled_root, &s.last_titled_root) {
                        (Some(r), Some(last)) if r != last => {
                            format!("ReAdd({};root-superseded)", src.kind())
                        }
                        _ => format!("ReAdd({})", src.kind()),
                    }
                } else {
                    src.kind().to_string()
                };
                // ----- model expectation -----
                let mut defs_after = s.defs.clone();
                for (n, sch) in Session::op_defs(&src) {
                    defs_after.insert(n, sch);
                }
                let schemas = Session::op_schemas(&src);
                let mut invalid: Vec<String> = Vec::new();
                let mut invalid_sites: Vec<(String, Vec<String>)> = Vec::new();
                let mut undecided = 0usize;
                let mut n_defaults = 0usize;
                for (path, sch) in &schemas {
                    for site in model::default_sites(sch, path, &defs_after) {
                        n_defaults += 1;
                        match site.valid {
                            Some(false) => {
                                invalid.extend(site.invalid_atoms.iter().cloned());
                                invalid_sites.push((site.ident.clone(), site.invalid_atoms.clone()));
                            }
                            None => undecided += 1,
                            Some(true) => {}
                        }
                    }
                }
                invalid.sort();
                invalid.dedup();
                let poisoned_op = src.poison().is_some();
                // for I6: ids and items before a re-add
                let mut ids_before: BTreeMap<String, TypeId> = BTreeMap::new();
                let mut first_result: Option<CallResult> = None;
                let scan_before = s.last_scan.clone();
                if is_readd && s.clean {
                    // the id the client holds for this schema is the one its most
                    // recent delivery returned (an id change is reported once, at
                    // the delivery that caused it)
                    first_result = s.latest_delivery.get(&source_index).cloned();
                    for (n, _) in Session::op_defs(&src) {
                        if let Ok(id) = s.lookup_def_id(&n) {
                            ids_before.insert(n, id);
                        }
                    }
                }
                // ----- the call -----
                s.step_now = step;
                let res = s.call(&src);
                result_tag = res.tag();
                if let Some(p) = src.poison() {
                    if res.is_ok() {
                        s.out.probe(&format!("poison_accepted.{p}"));
                    } else {
                        s.out.faults_fired += 1;
                        s.out.probe(&format!("fault_fired.{p}"));
                        s.out.probe(&format!(
                            "fault_ended_as.{}",
                            if matches!(res, CallResult::Panic(_)) { "panic" } else { "err" }
                        ));
                    }
                }
                let was_clean = s.clean;
                if res.is_ok() {
                    s.out.ingestions_ok += 1;
                    if let Some(r) = titled_root {
                        s.last_titled_root = Some(r);
                    }
                    for (n, sch) in Session::op_defs(&src) {
                        if !s.defs.contains_key(&n) {
                            s.def_order.push(n.clone());
                        }
                        s.defs.insert(n, sch);
                    }
                    if let Op::AddType { schema, .. } = &src {
                        s.extra_schemas.push(schema.clone());
                    }
                    if let Op::AddRootSchema { doc, .. } = &src {
                        if let Some(title) = doc.get("title").and_then(|t| t.as_str()) {
                            let mut root = doc.clone();
                            if let Some(o) = root.as_object_mut() {
                                o.remove("definitions");
                            }
                            // the model knows the root as a pseudo-definition, so that a
                            // self reference (`#`) counts as a cycle
                            fn rewrite(v: &mut Value, to: &str) {
                                match v {
                                    Value::Object(o) => {
                                        if o.get("$ref") == Some(&Value::String("#".into())) {
                                            o.insert("$ref".into(), Value::String(to.to_string()));
                                        }
                                        for x in o.values_mut() {
                                            rewrite(x, to);
                                        }
                                    }
                                    Value::Array(a) => a.iter_mut().for_each(|x| rewrite(x, to)),
                                    _ => {}
                                }
                            }
                            let pseudo = format!("#root#{title}");
                            let mut modelled = root.clone();
                            rewrite(&mut modelled, &format!("#/definitions/{pseudo}"));
                            if let Some(o) = modelled.as_object_mut() {
                                o.remove("default");
                            }
                            s.defs.insert(pseudo, modelled);
                            s.extra_schemas.push(root);
                        }
                    }
                } else {
                    s.clean = false;
                    s.out.clean = false;
                    // the failed call may have registered some definitions; the model
                    // promises nothing about them
                    // names the failed call tried to RE-define differently: typify has
                    // re-pointed their reference at an id that may never be filled in
                    // (documented weird state); they are excluded from post-fault demands
                    for (n, sch) in Session::op_defs(&src) {
                        if s.defs.get(&n).map(|old| old != &sch).unwrap_or(false) {
                            s.conflicted.insert(n);
                        }
                    }
                    if model::has_cycle(&model::by_value_graph(&defs_after)) {
                        s.tainted = true;
                        s.out.probe("post_fault.tainted_by_cyclic_batch");
                    }
                }
                // ----- I9 -----
                if was_clean && !poisoned_op && !s.model_off && s.out.harness_error.is_none() {
                    if !invalid.is_empty() {
                        match &res {
                            CallResult::Ok(_) => {
                                // Accepted. Whether that is a violation is decided per
                                // default site, in isolation: the history so far is re-run
                                // with every other invalid default removed. The site is
                                // *honoured* when rendering then panics, does not parse,
                                // or differs from the rendering without any invalid
                                // default; a default typify ignores altogether (same
                                // output with and without it) breaks no promise.
                                s.out.probe("invalid_default_accepted_call");
                                if attribute {
                                    let so_far = &ops[..=step];
                                    let baseline = run_ops_inner(
                                        settings,
                                        &strip_ops(so_far, &|_, _, valid| valid != Some(false)),
                                        faults_mode,
                                        false,
                                    );
                                    let mut any = false;
                                    for (ident, atoms) in &invalid_sites {
                                        let alone = run_ops_inner(
                                            settings,
                                            &strip_ops(so_far, &|id, _, valid| valid != Some(false) || id == ident.as_str()),
                                            faults_mode,
                                            false,
                                        );
                                        let manifest: Option<String> = if let Some(v) = alone.violations.iter().find(|v| v.invariant == "I3") {
                                            Some(if v.key.starts_with("render-panic") {
                                                "deferred to a panic while rendering".into()
                                            } else if v.key.starts_with("render-hang") {
                                                "rendering does not terminate".into()
                                            } else {
                                                "output does not parse".into()
                                            })
                                        } else {
                                            match (&baseline.last_output, &alone.last_output) {
                                                (Some(b), Some(a)) => compare_outputs(b, a)
                                                    .map(|d| format!("honoured with an invalid value; output differs from the output without it: {d}")),
                                                _ => None,
                                            }
                                        };
                                        match manifest {
                                            Some(m) => {
                                                any = true;
                                                for atom in atoms {
                                                    s.violate(
                                                        "I9",
                                                        format!("invalid-default|{atom}"),
                                                        step,
                                                        format!("{opkind} returned Ok although a default of class {atom} is not a valid instance of its schema ({m})"),
                                                        "an invalid default is reported as an error when the schema is added",
                                                    );
                                                }
                                            }
                                            None => s.out.probe("invalid_default_ignored_by_typify"),
                                        }
                                    }
                                    if any {
                                        // after an honoured invalid default nothing more is promised about rendering
                                        s.clean = false;
                                        s.out.clean = false;
                                    }
                                } else {
                                    // nested (isolation) runs only need the rendering verdict
                                }
                            }
                            CallResult::Panic(m) => {
                                for class in &invalid {
                                    s.violate(
                                        "I9",
                                        format!("invalid-default-add-panic|{class}"),
                                        step,
                                        format!("{opkind} panicked ({m}) on an invalid default of class {class}"),
                                        "an invalid default is reported as an error (not a panic) when the schema is added",
                                    );
                                }
                            }
                            CallResult::Err(_) => {
                                s.out.probe("invalid_default_rejected");
                            }
                        }
                    } else if undecided == 0 {
                        match &res {
                            CallResult::Ok(_) => {
                                if n_defaults > 0 {
                                    s.out.probe("valid_default_accepted");
                                }
                            }
                            CallResult::Err(e) => {
                                let k = if n_defaults == 0 { "no-defaults" } else { "?" };
                                s.violate(
                                    "I9",
                                    format!("rejected-in-fragment:{e}|{k}"),
                                    step,
                                    format!("{opkind} returned Err({e}) for in-fragment schemas whose defaults are all valid instances"),
                                    "schemas inside the supported fragment are never rejected",
                                );
                            }
                            CallResult::Panic(m) => {
                                let k = if n_defaults == 0 { "no-defaults" } else { "?" };
                                s.violate(
                                    "I9",
                                    format!("panicked-in-fragment:{}|{k}", classify_panic(m)),
                                    step,
                                    format!("{opkind} panicked: {m}"),
                                    "schemas inside the supported fragment are never rejected",
                                );
                            }
                        }
                    }
                }
                if !faults_mode && poisoned_op {
                    s.out.harness_error = Some("poisoned op in a faults=off run".into());
                }
                // ----- re-delivery of a call that failed because of an invalid default -----
                // The same schemas carry the same invalid default: the second
                // delivery has to be refused like the first one (never accepted
                // because some bookkeeping now considers the definitions "added").
                if is_readd && poisoned_op {
                    let first_failed = matches!(
                        s.results.get(source_index),
                        Some(Some(CallResult::Err(_))) | Some(Some(CallResult::Panic(_)))
                    );
                    let kind = src.poison().unwrap_or("").to_string();
                    if first_failed && res.is_ok() {
                        if kind == "bad-default" || kind == "int-default-range" {
                            // where the invalid default sits: on a property of the delivered
                            // definition itself, or on an inline sub-type (which typify re-uses
                            // BY NAME from the failed call and therefore never re-validates)
                            let mut where_ = "own-property";
                            for (path, sch) in &schemas {
                                for site in model::default_sites(sch, path, &defs_after) {
                                    if site.valid == Some(false) && site.path.matches("/properties/").count() >= 2 {
                                        where_ = "nested-inline";
                                    }
                                }
                            }
                            s.violate(
                                "I9",
                                format!("invalid-default-accepted-on-redelivery:ReAdd({})|{kind}:{where_}", src.kind()),
                                step,
                                format!("{opkind}: the first delivery was refused, the identical re-delivery returned Ok although it carries the same invalid default"),
                                "an invalid default is reported as an error when the schema is added (every time it is added)",
                            );
                        } else {
                            s.out.probe(&format!("redelivery_of_failed_call_accepted.{kind}"));
                        }
                    } else if first_failed {
                        s.out.probe("redelivery_of_failed_call_refused_again");
                    }
                }
                // ----- a successful delivery after an earlier failed call -----
                // (e.g. the client's retry without the offending definition): the
                // one thing that can be demanded of the documented "weird state" is
                // that the definitions this successful call delivered exist:
                // each is addressable and its id answers.
                if res.is_ok() && !was_clean && !s.tainted && !poisoned_op {
                    let names: Vec<String> = Session::op_defs(&src).into_iter().map(|d| d.0).collect();
                    for n in names {
                        if s.conflicted.contains(&n) {
                            s.out.probe("post_fault.delivered_definition_was_conflictingly_redefined");
                            continue;
                        }
                        s.at(step, PHASE_INSPECT);
                        let problem = match s.lookup_def_id(&n) {
                            Err(e) => Some(format!("add_type($ref {n}) -> {e}")),
                            Ok(id) => match take_snapshot(&s.ts, &id) {
                                Ok(_) => None,
                                Err(e) => Some(format!("definition {n} has id {} which does not answer: {e}", id_num(&id))),
                            },
                        };
                        match problem {
                            Some(p) => {
                                s.violate(
                                    "I2",
                                    format!("delivered-after-fault-not-defined:{opkind}"),
                                    step,
                                    format!("{opkind} returned Ok after an earlier failed call, but {p}"),
                                    "a definition delivered by a successful call exists and its id resolves",
                                );
                                break;
                            }
                            None => s.out.probe("post_fault.delivered_definition_resolves"),
                        }
                    }
                }
                // ----- promises -----
                if let CallResult::Ok(Some(id)) = &res {
                    s.promise(id, step);
                }
                // ----- after a fault: the id a successful add_type_with_name returns answers -----
                // (Only this much can be demanded of the documented "weird state": the
                // type the call itself converted, or found by name, exists. References
                // into a failed batch may lead nowhere, so `$ref` schemas and the
                // children of the returned type are not looked at.)
                if !s.clean && !s.tainted {
                    if let (Op::AddType { schema, .. }, CallResult::Ok(Some(id))) = (&src, &res) {
                        if schema.get("$ref").is_none() {
                            let ts = &s.ts;
                            let answers = catch_unwind(AssertUnwindSafe(|| ts.get_type(id).is_ok())).unwrap_or(false);
                            if answers {
                                s.out.probe("post_fault.add_type_id_answers");
                            } else {
                                s.violate(
                                    "I2",
                                    format!("returned-id-unresolvable-after-fault:{opkind}"),
                                    step,
                                    format!("{opkind} returned Ok({}) after an earlier failed call, but get_type rejects that id", id_num(id)),
                                    "an id returned by a successful call denotes a type",
                                );
                            }
                        }
                    }
                }
                // ----- the id add_type_with_name returns is the type of THAT schema -----
                // (the hint only names the result when the schema converts to a named
                // type; a list or a scalar never comes back as some struct that happens
                // to carry the hinted name)
                if let (Op::AddType { schema, poison: None, .. }, CallResult::Ok(Some(id))) = (&src, &res) {
                    if s.clean && !s.tainted {
                        let plain = |keys: &[&str]| keys.iter().all(|k| schema.get(*k).is_none());
                        let expected: Option<&[&str]> = match schema.get("type").and_then(|t| t.as_str()) {
                            Some("array") if plain(&["$ref", "title", "oneOf", "anyOf", "allOf"]) => Some(&["vec(", "set(", "tuple(", "array("]),
                            Some("boolean") | Some("integer") | Some("number") if plain(&["$ref", "title", "enum", "oneOf", "anyOf", "allOf"]) => Some(&["builtin("]),
                            Some("string") if plain(&["$ref", "title", "enum", "format", "pattern", "maxLength", "minLength", "oneOf", "anyOf", "allOf"]) => Some(&["string"]),
                            _ => None,
                        };
                        if let Some(kinds) = expected {
                            if let Ok(snap) = take_snapshot(&s.ts, id) {
                                if kinds.iter().any(|k| snap.details.starts_with(k)) {
                                    s.out.probe("returned_type_kind_matches_schema");
                                } else {
                                    s.violate(
                                        "I2",
                                        format!("returned-type-is-not-the-schemas:{opkind}"),
                                        step,
                                        format!("{opkind} of a schema of type {} returned {} whose details are {}", schema.get("type").map(|t| t.to_string()).unwrap_or_default(), snap.name, snap.details.chars().take(80).collect::<String>()),
                                        "the returned id denotes the type the delivered schema converts to",
                                    );
                                }
                            }
                        }
                    }
                }
                // ----- render after every ingestion -----
                if s.clean {
                    if let Some(text) = s.render_check(step, &opkind, true) {
                        digest = fnv64(text.as_bytes());
                    }
                } else {
                    // post-fault: rendering is observed and counted, never judged
                    if let Some(text) = s.render_check(step, &opkind, false) {
                        digest = fnv64(text.as_bytes());
                    }
                }
                // ----- I6 -----
                if is_readd && was_clean && s.clean {
                    let mut problems: Vec<(String, String)> = Vec::new();
                    if let (Some(CallResult::Ok(a)), CallResult::Ok(b)) = (&first_result, &res) {
                        if a != b {
                            problems.push((
                                format!("readd-id-changed:{opkind}"),
                                format!("first delivery returned {a:?}, re-delivery returned {b:?}"),
                            ));
                        }
                    }
                    for (n, before) in &ids_before {
                        if let Ok(after) = s.lookup_def_id(n) {
                            if &after != before {
                                problems.push((
                                    format!("readd-id-changed:{opkind}"),
                                    format!("definition {n} resolved to {before:?} before and {after:?} after the re-delivery"),
                                ));
                                break;
                            }
                        }
                    }
                    if let (Some(b), Some(a)) = (&scan_before, &s.last_scan) {
                        if b.n_items != a.n_items || b.root_type_names != a.root_type_names {
                            let new: Vec<String> = a
                                .items
                                .iter()
                                .filter(|(k, v)| b.items.get(*k).map(|bv| bv.len()) != Some(v.len()))
                                .map(|(k, v)| format!("{k} x{}", v.len()))
                                .take(6)
                                .collect();
                            problems.push((
                                format!("readd-new-defs:{opkind}"),
                                format!("items {} -> {}; e.g. {}", b.n_items, a.n_items, new.join(", ")),
                            ));
                        }
                    }
                    for (key, obs) in problems {
                        s.violate(
                            "I6",
                            key,
                            step,
                            obs,
                            "re-adding an already added schema returns the same id and adds no definitions",
                        );
                    }
                }
                // ----- a TITLED schema delivered again under another hint -----
                // (the title names the type, so it is the same type: same id, and
                // nothing new is defined - the children are named after the title too)
                if !is_readd && was_clean && s.clean {
                    if let (Op::AddType { schema, poison: None, .. }, CallResult::Ok(Some(id))) = (&src, &res) {
                        if schema.get("title").is_some() {
                            let k = schema.to_string();
                            match s.titled_seen.get(&k).cloned() {
                                None => {
                                    s.titled_seen.insert(k, id.clone());
                                }
                                Some(first) => {
                                    s.out.probe("titled_schema_delivered_again");
                                    if &first != id {
                                        s.violate(
                                            "I6",
                                            format!("readd-id-changed:{opkind}(titled, other hint)"),
                                            step,
                                            format!("the same titled schema returned {first:?} under its first hint and {id:?} now"),
                                            "re-adding an already added schema returns the same id and adds no definitions",
                                        );
                                    }
                                    if let (Some(b), Some(a)) = (&scan_before, &s.last_scan) {
                                        if b.root_type_names != a.root_type_names {
                                            let new: Vec<&String> = a.root_type_names.difference(&b.root_type_names).take(6).collect();
                                            s.violate(
                                                "I6",
                                                format!("readd-new-defs:{opkind}(titled, other hint)"),
                                                step,
                                                format!("delivering an already delivered titled schema under another hint defined {new:?}"),
                                                "re-adding an already added schema returns the same id and adds no definitions",
                                            );
                                        }
                                    }
                                }
                            }
                        }
                    }
                }
                if attribute {
                    resolve_placeholders(&mut s.out, settings, &ops[..=step], faults_mode);
                }
                if res.is_ok() {
                    s.latest_delivery.insert(source_index, res.clone());
                }
                s.results.push(Some(res));
                s.check_promises(step);
                s.out.abstract_states.push(s.abstract_state());
                s.out.events.push(Event {
                    step,
                    op: opkind,
                    result: result_tag.clone(),
                    digest,
                });
                continue;
            }
        }
        if attribute {
            resolve_placeholders(&mut s.out, settings, &ops[..=step], faults_mode);
        }
        s.results.push(None);
        s.check_promises(step);
        s.out.abstract_states.push(s.abstract_state());
        s.out.events.push(Event {
            step,
            op: op.kind().into(),
            result: result_tag,
            digest,
        });
    }
    if s.clean {
        s.out.final_output = s.last_render.clone();
        if attribute && !s.model_off && !s.is_variant {
            s.build_value_probes(ops);
        }
    }
    s.out.last_output = s.last_render.clone();
    s.out
}

/// Compare two rendered outputs as sets of definitions (item key -> token
/// text without docs). Returns None when equal, otherwise a short diff.
pub fn compare_outputs(a: &str, b: &str) -> Option<String> {
    if a == b {
        return None;
    }
    let pa: Result<syn::File, _> = syn::parse_str(a);
    let pb: Result<syn::File, _> = syn::parse_str(b);
    let (Ok(fa), Ok(fb)) = (pa, pb) else {
        return Some("one of the outputs does not parse".into());
    };
    let sa = outscan::scan_file(&fa);
    let sb = outscan::scan_file(&fb);
    let mut diffs = Vec::new();
    for (k, v) in &sa.items {
        match sb.items.get(k) {
            None => diffs.push(format!("only in base: {k}")),
            Some(w) if w != v => diffs.push(format!("differs: {k}")),
            _ => {}
        }
    }
    for k in sb.items.keys() {
        if !sa.items.contains_key(k) {
            diffs.push(format!("only in variant: {k}"));
        }
    }
    if diffs.is_empty() {
        // same set of definitions, different order or docs: not a violation
        None
    } else {
        diffs.truncate(8);
        Some(diffs.join("; "))
    }
}

/// Execute a full run description: the base history in one simulated
/// process, and (when present) the variant history in another one, followed
/// by the history relation.
pub fn execute(desc: &RunDesc) -> Outcome {
    execute_with_progress(desc, None)
}

/// Run `execute` under a watchdog. typify has loops whose termination depends
/// on the state of the space; a simulated process that does not finish within
/// `timeout` is abandoned (its thread keeps spinning until the OS process
/// exits, so callers exit or restart soon after) and reported from the last
/// published progress mark.
pub fn execute_watched(desc: &RunDesc, timeout: std::time::Duration) -> (Outcome, bool) {
    let cell = Arc::new(AtomicU64::new(0));
    let (tx, rx) = std::sync::mpsc::channel();
    let d = desc.clone();
    let c2 = cell.clone();
    std::thread::Builder::new()
        .name("watched-run".into())
        .spawn(move || {
            let o = execute_with_progress(&d, Some(c2));
            let _ = tx.send(o);
        })
        .expect("spawn watched run");
    match rx.recv_timeout(timeout) {
        Ok(o) => (o, false),
        Err(_) => {
            let v = cell.load(Ordering::Relaxed);
            let step = (v >> 16) as usize;
            let phase = (v >> 8) & 0xff;
            let clean = (v >> 1) & 1 == 1;
            let variant = v & 1 == 1;
            let mut out = Outcome::default();
            out.clean = clean;
            let phase_name = match phase {
                PHASE_CALL => "call",
                PHASE_RENDER => "render",
                PHASE_INSPECT => "inspect",
                PHASE_SNAPSHOT => "snapshot",
                _ => "model",
            };
            out.events.push(Event {
                step: step + if variant { 1000 } else { 0 },
                op: format!("HANG in {phase_name}"),
                result: "hang".into(),
                digest: 0,
            });
            if clean {
                let (inv, key, expected) = match phase {
                    PHASE_RENDER => ("I3", "render-hang", "to_stream() returns after successful ingestion"),
                    PHASE_CALL => ("I9", "ingest-hang", "an ingestion call returns"),
                    _ => ("I2", "introspection-hang", "promised ids answer"),
                };
                out.violations.push(Violation {
                    invariant: inv.into(),
                    key: key.into(),
                    step,
                    observed: format!(
                        "no progress for {:?} in phase {phase_name} of step {step}{}",
                        timeout,
                        if variant { " (variant history)" } else { "" }
                    ),
                    expected: expected.into(),
                });
            } else {
                out.probe(&format!("post_fault_hang.{phase_name}"));
            }
            (out, true)
        }
    }
}

fn execute_with_progress(desc: &RunDesc, cell: Option<Arc<AtomicU64>>) -> Outcome {
    let faults = desc.faults == "on";
    let settings = desc.settings.clone();
    let ops = desc.ops.clone();
    let c = cell.clone();
    let model_off = desc.model_off;
    let base = hashseed::run_simulated_process(desc.hash_key, desc.decoy, move || {
        MODEL_OFF.with(|v| v.set(model_off));
        TRACE_PROGRESS.with(|t| t.set(std::env::var("VERIF_TRACE_PROGRESS").is_ok()));
        PROGRESS.with(|p| *p.borrow_mut() = c);
        run_ops(&settings, &ops, faults)
    });
    let mut base = match base {
        Ok(o) => o,
        Err(e) => {
            return Outcome {
                harness_error: Some(format!("simulated process died: {}", panic_message(e))),
                ..Default::default()
            }
        }
    };
    if let Some(v) = &desc.variant {
        let settings = desc.settings.clone();
        let ops = v.ops.clone();
        let c = cell.clone();
        // H5: ONE simulated process converts the same history again and again, each
        // time with a brand new TypeSpace; its last conversion is the variant
        let repeats = if v.relation == "H5" { 40 } else { 1 };
        let var = hashseed::run_simulated_process(v.hash_key, v.decoy, move || {
            MODEL_OFF.with(|v| v.set(model_off));
            TRACE_PROGRESS.with(|t| t.set(std::env::var("VERIF_TRACE_PROGRESS").is_ok()));
            PROGRESS.with(|p| *p.borrow_mut() = c);
            let mut last = run_ops_variant(&settings, &ops, faults);
            for _ in 1..repeats {
                last = run_ops_variant(&settings, &ops, faults);
            }
            last
        });
        let var = match var {
            Ok(o) => o,
            Err(e) => {
                base.harness_error =
                    Some(format!("simulated variant process died: {}", panic_message(e)));
                return base;
            }
        };
        if var.harness_error.is_some() && base.harness_error.is_none() {
            base.harness_error = var.harness_error.clone();
        }
        base.probe(&format!("variant_run.{}", v.relation));
        if var.canary != base.canary {
            base.probe("variant_canary_differs");
        }
        let step = desc.ops.len();
        // The relation is judged only when the base history is clean and free
        // of step violations (those are reported on their own).
        if base.clean && base.violations.is_empty() {
            match (&base.final_output, &var.final_output) {
                (Some(a), Some(b)) => {
                    if v.relation == "H5" {
                        if a != b {
                            base.violations.push(Violation {
                                invariant: "H5".into(),
                                key: "H5-diff:bytes".into(),
                                step,
                                observed: format!(
                                    "the 40th conversion of the same history in one process differs from the first conversion in a fresh process ({})",
                                    compare_outputs(a, b).unwrap_or_else(|| "order/doc only".into())
                                ),
                                expected: "the output depends only on the settings and the schema, not on what the process converted before".into(),
                            });
                        }
                    } else if v.relation == "H4" {
                        if a != b {
                            base.violations.push(Violation {
                                invariant: "H4".into(),
                                key: "H4-diff:bytes".into(),
                                step,
                                observed: format!(
                                    "same history, hash keys {:#x} vs {:#x}: outputs differ ({})",
                                    desc.hash_key,
                                    v.hash_key,
                                    compare_outputs(a, b).unwrap_or_else(|| "order/doc only".into())
                                ),
                                expected: "byte-identical output in every process".into(),
                            });
                        }
                    } else if let Some(diff) = compare_outputs(a, b) {
                        base.violations.push(Violation {
                            invariant: v.relation.clone(),
                            key: format!("{}-diff:items", v.relation),
                            step,
                            observed: diff,
                            expected: "the same set of definitions".into(),
                        });
                    } else if a != b {
                        // the same set of definitions in another ORDER: the text depends
                        // on how the definitions were delivered, not only on what they are
                        base.probe("variant_same_set_different_text");
                        base.violations.push(Violation {
                            invariant: v.relation.clone(),
                            key: format!("{}-diff:order", v.relation),
                            step,
                            observed: "the re-ordered / re-batched history defines the same items but renders them in a different order (or with different doc text)".into(),
                            expected: "byte-identical output for the same definitions under the same settings".into(),
                        });
                    }
                }
                (Some(_), None) => {
                    // variant history failed where the base succeeded
                    let first = var
                        .violations
                        .first()
                        .map(|x| format!("{} {}", x.invariant, x.key))
                        .unwrap_or_else(|| {
                            var.events
                                .iter()
                                .find(|e| e.result != "ok" && e.result != "-")
                                .map(|e| format!("step {} {} -> {}", e.step, e.op, e.result))
                                .unwrap_or_else(|| "unknown".into())
                        });
                    base.violations.push(Violation {
                        invariant: v.relation.clone(),
                        key: format!("{}-diff:result", v.relation),
                        step,
                        observed: format!("base history clean, variant history not: {first}"),
                        expected: "the same result for a re-batched / re-ordered history".into(),
                    });
                }
                _ => {}
            }
        }
        // step events of the variant are part of the run's log too
        for mut e in var.events {
            e.step += 1000;
            base.events.push(e);
        }
        for (k, n) in var.probes {
            *base.probes.entry(format!("variant.{k}")).or_insert(0) += n;
        }
    }
    base
}
