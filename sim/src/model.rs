//! The executable reference model: what the *schemas themselves* promise,
//! computed independently of typify. Everything here is recomputed from the
//! explicit run description at execution time (never stored), so that a
//! shrunk or hand-edited replay file is judged by the same rules.
//!
//!  * `validate` — a small draft-07 validator for the generator's fragment,
//!    reading recognised integer formats as ranges (as the property does).
//!  * `invalid_defaults` — every `default` annotation that is not a valid
//!    instance of the schema it annotates.
//!  * `by_value_graph` — the by-value containment edges between definitions.

use std::collections::{BTreeMap, BTreeSet};

use serde_json::{Map, Value};

pub type Defs = BTreeMap<String, Value>;

fn int_format_range(fmt: &str) -> Option<(i128, i128)> {
    Some(match fmt {
        "int8" => (i8::MIN as i128, i8::MAX as i128),
        "int16" => (i16::MIN as i128, i16::MAX as i128),
        "int32" => (i32::MIN as i128, i32::MAX as i128),
        "int64" | "int" => (i64::MIN as i128, i64::MAX as i128),
        "uint8" => (0, u8::MAX as i128),
        "uint16" => (0, u16::MAX as i128),
        "uint32" => (0, u32::MAX as i128),
        "uint64" | "uint" => (0, u64::MAX as i128),
        _ => return None,
    })
}

fn json_type_matches(t: &str, v: &Value) -> bool {
    match t {
        "null" => v.is_null(),
        "boolean" => v.is_boolean(),
        "string" => v.is_string(),
        "array" => v.is_array(),
        "object" => v.is_object(),
        "number" => v.is_number(),
        "integer" => match v {
            Value::Number(n) => {
                n.is_i64() || n.is_u64() || n.as_f64().map(|f| f.fract() == 0.0).unwrap_or(false)
            }
            _ => false,
        },
        _ => false,
    }
}

/// Syntax of the string formats the generator uses; None = format not modelled.
/// (xcheck.py gives python jsonschema the same rules as patterns.)
pub fn string_format_ok(fmt: &str, s: &str) -> Option<bool> {
    fn shape(s: &str, pat: &str) -> bool {
        // pat: 'd' digit, 'h' lower-case hex digit, anything else literal
        s.len() == pat.len()
            && s.chars().zip(pat.chars()).all(|(c, p)| match p {
                'd' => c.is_ascii_digit(),
                'h' => c.is_ascii_digit() || ('a'..='f').contains(&c),
                _ => c == p,
            })
    }
    fn ipv4(s: &str) -> bool {
        let parts: Vec<&str> = s.split('.').collect();
        parts.len() == 4 && parts.iter().all(|p| !p.is_empty() && p.len() <= 3 && p.chars().all(|c| c.is_ascii_digit()))
    }
    Some(match fmt {
        "uuid" => shape(s, "hhhhhhhh-hhhh-hhhh-hhhh-hhhhhhhhhhhh"),
        "date" => shape(s, "dddd-dd-dd"),
        "date-time" => shape(s, "dddd-dd-ddTdd:dd:ddZ"),
        "ipv4" => ipv4(s),
        "ip" => ipv4(s) || (s.contains(':') && s.chars().all(|c| c == ':' || c.is_ascii_digit() || ('a'..='f').contains(&c))),
        _ => return None,
    })
}

pub fn resolve_ref<'a>(r: &str, defs: &'a Defs) -> Option<&'a Value> {
    let name = r
        .strip_prefix("#/definitions/")
        .or_else(|| r.strip_prefix("#/$defs/"))?;
    defs.get(name)
}

/// `Some(true/false)`: decided. `None`: the schema uses something outside the
/// model's fragment (unknown keyword combination, unresolved `$ref`); callers
/// treat `None` as "no expectation".
pub fn validate(schema: &Value, inst: &Value, defs: &Defs, depth: u32) -> Option<bool> {
    if depth > 64 {
        return None;
    }
    let obj = match schema {
        Value::Bool(b) => return Some(*b),
        Value::Object(o) => o,
        _ => return None,
    };
    let mut ok = true;
    if let Some(Value::String(r)) = obj.get("$ref") {
        let target = resolve_ref(r, defs)?;
        ok &= validate(target, inst, defs, depth + 1)?;
    }
    if let Some(t) = obj.get("type") {
        let matches = match t {
            Value::String(s) => json_type_matches(s, inst),
            Value::Array(ts) => ts
                .iter()
                .any(|s| s.as_str().map(|s| json_type_matches(s, inst)).unwrap_or(false)),
            _ => return None,
        };
        ok &= matches;
    }
    if let Some(Value::Array(vals)) = obj.get("enum") {
        ok &= vals.iter().any(|v| v == inst);
    }
    if let Some(c) = obj.get("const") {
        ok &= c == inst;
    }
    // numbers
    if let Value::Number(n) = inst {
        if let Some(Value::String(fmt)) = obj.get("format") {
            if let Some((lo, hi)) = int_format_range(fmt) {
                let as_int: Option<i128> = if let Some(i) = n.as_i64() {
                    Some(i as i128)
                } else if let Some(u) = n.as_u64() {
                    Some(u as i128)
                } else {
                    n.as_f64().filter(|f| f.fract() == 0.0).map(|f| f as i128)
                };
                if let Some(i) = as_int {
                    ok &= lo <= i && i <= hi;
                }
            }
        }
        if let Some(m) = obj.get("minimum").and_then(|m| m.as_f64()) {
            ok &= n.as_f64()? >= m;
        }
        if let Some(m) = obj.get("maximum").and_then(|m| m.as_f64()) {
            ok &= n.as_f64()? <= m;
        }
    }
    // strings
    if let Value::String(s) = inst {
        let len = s.chars().count() as u64;
        if let Some(m) = obj.get("minLength").and_then(|m| m.as_u64()) {
            ok &= len >= m;
        }
        if let Some(m) = obj.get("maxLength").and_then(|m| m.as_u64()) {
            ok &= len <= m;
        }
        if obj.contains_key("pattern") {
            return None; // the model has no regex engine
        }
        // string formats that typify maps to library types are read as
        // assertions (the generated type can only hold such values)
        if let Some(Value::String(fmt)) = obj.get("format") {
            if let Some(good) = string_format_ok(fmt, s) {
                ok &= good;
            }
        }
    }
    // arrays
    if let Value::Array(items) = inst {
        if let Some(m) = obj.get("minItems").and_then(|m| m.as_u64()) {
            ok &= items.len() as u64 >= m;
        }
        if let Some(m) = obj.get("maxItems").and_then(|m| m.as_u64()) {
            ok &= items.len() as u64 <= m;
        }
        if obj.get("uniqueItems") == Some(&Value::Bool(true)) {
            for (i, a) in items.iter().enumerate() {
                for b in &items[..i] {
                    ok &= a != b;
                }
            }
        }
        match obj.get("items") {
            Some(Value::Array(schemas)) => {
                for (i, it) in items.iter().enumerate() {
                    if let Some(s) = schemas.get(i) {
                        ok &= validate(s, it, defs, depth + 1)?;
                    } else if let Some(add) = obj.get("additionalItems") {
                        ok &= validate(add, it, defs, depth + 1)?;
                    }
                }
            }
            Some(s) => {
                for it in items {
                    ok &= validate(s, it, defs, depth + 1)?;
                }
            }
            None => {}
        }
    }
    // objects
    if let Value::Object(members) = inst {
        let props = obj.get("properties").and_then(|p| p.as_object());
        if let Some(Value::Array(req)) = obj.get("required") {
            for r in req {
                ok &= members.contains_key(r.as_str()?);
            }
        }
        for (k, v) in members {
            if let Some(ps) = props.and_then(|p| p.get(k)) {
                ok &= validate(ps, v, defs, depth + 1)?;
            } else if let Some(add) = obj.get("additionalProperties") {
                ok &= validate(add, v, defs, depth + 1)?;
            }
        }
        if obj.contains_key("patternProperties") || obj.contains_key("propertyNames") {
            return None;
        }
    }
    if let Some(Value::Array(subs)) = obj.get("allOf") {
        for s in subs {
            ok &= validate(s, inst, defs, depth + 1)?;
        }
    }
    if let Some(Value::Array(subs)) = obj.get("anyOf") {
        let mut any = false;
        for s in subs {
            any |= validate(s, inst, defs, depth + 1)?;
        }
        ok &= any;
    }
    if let Some(Value::Array(subs)) = obj.get("oneOf") {
        let mut n = 0;
        for s in subs {
            if validate(s, inst, defs, depth + 1)? {
                n += 1;
            }
        }
        ok &= n == 1;
    }
    if let Some(s) = obj.get("not") {
        ok &= !validate(s, inst, defs, depth + 1)?;
    }
    Some(ok)
}

/// One `default` annotation found in a schema.
#[derive(Debug, Clone)]
pub struct DefaultSite {
    /// JSON-pointer-ish path from the walked root, for reports
    pub path: String,
    pub value: Value,
    /// the annotated schema (including the `default` key)
    pub schema: Value,
    /// model verdict; None = outside the model's fragment
    pub valid: Option<bool>,
    /// coarse class used in finding keys: "<schema kind>/<value json type>"
    pub class: String,
    /// for invalid sites: the minimal invalid parts
    pub invalid_atoms: Vec<String>,
    /// position-independent identity (see `site_ident`)
    pub ident: String,
}

fn value_kind(v: &Value) -> &'static str {
    match v {
        Value::Null => "null",
        Value::Bool(_) => "bool",
        Value::Number(_) => "number",
        Value::String(_) => "string",
        Value::Array(_) => "array",
        Value::Object(_) => "object",
    }
}

fn deref<'a>(schema: &'a Value, defs: &'a Defs, depth: u32) -> &'a Value {
    if depth < 8 {
        if let Some(Value::String(r)) = schema.get("$ref") {
            if let Some(t) = resolve_ref(r, defs) {
                return deref(t, defs, depth + 1);
            }
        }
        // allOf [ X ] with sibling annotations (schemars' spelling of "X with a default")
        if let Some(Value::Array(a)) = schema.get("allOf") {
            if a.len() == 1 {
                return deref(&a[0], defs, depth + 1);
            }
        }
    }
    schema
}

fn is_reference(schema: &Value) -> bool {
    schema.get("$ref").is_some()
        || matches!(schema.get("allOf"), Some(Value::Array(a)) if a.len() == 1 && a[0].get("$ref").is_some())
}

fn payload_kind(schema: &Value, defs: &Defs) -> &'static str {
    // a payload given by reference is ONE item (a newtype variant holding the
    // referenced type), whatever the referenced type is; only inline objects and
    // inline tuples become struct / tuple variants
    if is_reference(schema) {
        return "item";
    }
    let s = deref(schema, defs, 0);
    match s.get("type") {
        Some(Value::String(t)) if t == "object" && s.get("properties").is_some() => "struct",
        Some(Value::String(t)) if t == "array" && matches!(s.get("items"), Some(Value::Array(_))) => "tuple",
        _ => "item",
    }
}

fn single_string_enum(s: &Value) -> Option<&str> {
    match s.get("enum") {
        Some(Value::Array(v)) if v.len() == 1 => v[0].as_str(),
        _ => None,
    }
}

/// Serde tagging style of a `oneOf`, and the payload kind of the variant the
/// value selects: "external:item", "adjacent:struct", "internal:struct",
/// "untagged:<json type>", "nullable>...".
fn oneof_class(variants: &[Value], value: Option<&Value>, defs: &Defs, depth: u32) -> String {
    // nullable form
    if variants.len() == 2 {
        let nulls: Vec<usize> = variants
            .iter()
            .enumerate()
            .filter(|(_, v)| v.get("type") == Some(&Value::String("null".into())))
            .map(|(i, _)| i)
            .collect();
        if nulls.len() == 1 {
            let other = &variants[1 - nulls[0]];
            let inner_val = value.filter(|v| !v.is_null());
            return format!("nullable>{}", kind_with_value(other, inner_val, defs, depth + 1));
        }
    }
    let objs: Vec<&serde_json::Map<String, Value>> = variants
        .iter()
        .filter(|v| v.get("type") == Some(&Value::String("object".into())))
        .filter_map(|v| v.get("properties").and_then(|p| p.as_object()))
        .collect();
    let n_str_enums = variants
        .iter()
        .filter(|v| v.get("type") == Some(&Value::String("string".into())) && v.get("enum").is_some())
        .count();
    if !objs.is_empty() && objs.len() + n_str_enums == variants.len() && objs.iter().all(|p| p.len() == 1) {
        // externally tagged
        let payload = match value {
            Some(Value::String(_)) => "unit",
            Some(Value::Object(m)) if m.len() == 1 => {
                let k = m.keys().next().unwrap();
                objs.iter()
                    .find_map(|p| p.get(k))
                    .map(|s| payload_kind(s, defs))
                    .unwrap_or("unknown-variant")
            }
            _ => "other",
        };
        return format!("oneOf:external:{payload}");
    }
    if !objs.is_empty() && objs.len() == variants.len() {
        // a tag: present everywhere with a single-valued string enum
        let n_tags = objs[0]
            .keys()
            .filter(|k| objs.iter().all(|p| p.get(*k).and_then(single_string_enum).is_some()))
            .count();
        let tag = objs[0]
            .keys()
            .find(|k| objs.iter().all(|p| p.get(*k).and_then(single_string_enum).is_some()));
        if let (Some(tag), true) = (tag, n_tags >= 2) {
            // two or more properties qualify as the tag: typify picks the first
            // in name order, the others stay as constant-valued members
            let known = value
                .and_then(|v| v.get(tag.as_str()))
                .and_then(|t| t.as_str())
                .map(|t| objs.iter().any(|p| p.get(tag).and_then(single_string_enum) == Some(t)))
                .unwrap_or(false);
            return format!("oneOf:internal-multi-tag:{}", if known { "struct" } else { "unknown-variant" });
        }
        if let Some(tag) = tag {
            let mut others: BTreeSet<&String> = BTreeSet::new();
            for p in &objs {
                for k in p.keys() {
                    if k != tag {
                        others.insert(k);
                    }
                }
            }
            let selected = value
                .and_then(|v| v.get(tag.as_str()))
                .and_then(|t| t.as_str())
                .and_then(|t| objs.iter().find(|p| p.get(tag).and_then(single_string_enum) == Some(t)));
            if others.len() == 1 && objs.iter().all(|p| p.len() <= 2) {
                let content = *others.iter().next().unwrap();
                let payload = match selected {
                    Some(p) => p.get(content).map(|s| payload_kind(s, defs)).unwrap_or("unit"),
                    None => "unknown-variant",
                };
                return format!("oneOf:adjacent:{payload}");
            }
            return format!(
                "oneOf:internal:{}",
                if selected.is_some() { "struct" } else { "unknown-variant" }
            );
        }
    }
    format!("oneOf:untagged:{}", value.map(value_kind).unwrap_or("-"))
}

/// A coarse, stable description of the *kind* of schema a default annotates.
pub fn schema_kind(schema: &Value, defs: &Defs, depth: u32) -> String {
    kind_with_value(schema, None, defs, depth)
}

/// Kind of `schema`, refined by the value it is paired with; every node that
/// has a value carries a `/<json type of the value>` suffix, so that a class
/// reads e.g. `array[ref>string-enum/string]/array`.
pub fn kind_with_value(schema: &Value, value: Option<&Value>, defs: &Defs, depth: u32) -> String {
    let k = kind_inner(schema, value, defs, depth);
    match value {
        Some(v) => {
            let suffix = format!("/{}", value_kind(v));
            if k.ends_with(&suffix) && (k.starts_with("ref>") || k.starts_with("nullable>")) {
                k
            } else {
                format!("{k}{suffix}")
            }
        }
        None => k,
    }
}

fn kind_inner(schema: &Value, value: Option<&Value>, defs: &Defs, depth: u32) -> String {
    let Some(o) = schema.as_object() else {
        return "any".into();
    };
    if depth < 8 {
        if let Some(Value::String(r)) = o.get("$ref") {
            if let Some(t) = resolve_ref(r, defs) {
                return format!("ref>{}", kind_with_value(t, value, defs, depth + 1));
            }
            return "ref>?".into();
        }
    }
    for key in ["oneOf", "anyOf"] {
        if let Some(Value::Array(vs)) = o.get(key) {
            return oneof_class(vs, value, defs, depth).replace("oneOf", key);
        }
    }
    if let Some(Value::Array(a)) = o.get("allOf") {
        // allOf [ $ref ] with sibling annotations is how schemars writes a reference with a default
        if a.len() == 1 && depth < 8 {
            return kind_inner(&a[0], value, defs, depth + 1);
        }
        return "allOf".into();
    }
    match o.get("type") {
        Some(Value::String(t)) => match t.as_str() {
            "string" => {
                if o.contains_key("enum") {
                    "string-enum".into()
                } else if o.contains_key("maxLength")
                    || o.contains_key("minLength")
                    || o.contains_key("pattern")
                {
                    "constrained-string".into()
                } else if let Some(Value::String(f)) = o.get("format") {
                    format!("string:{f}")
                } else {
                    "string".into()
                }
            }
            "integer" | "number" => {
                let mut k = t.to_string();
                if let Some(Value::String(f)) = o.get("format") {
                    k.push(':');
                    k.push_str(f);
                }
                if o.contains_key("minimum") || o.contains_key("exclusiveMinimum") {
                    k.push_str(":min");
                }
                if o.contains_key("maximum") || o.contains_key("exclusiveMaximum") {
                    k.push_str(":max");
                }
                k
            }
            "array" => {
                let fixed = o.get("minItems").is_some() && o.get("minItems") == o.get("maxItems");
                let elems: Vec<&Value> = value.and_then(|v| v.as_array()).map(|a| a.iter().collect()).unwrap_or_default();
                let deep = depth < 3;
                match (o.get("items"), fixed) {
                    (Some(Value::Array(items)), _) => {
                        if deep && value.is_some() {
                            let ks: Vec<String> = items
                                .iter()
                                .enumerate()
                                .map(|(i, it)| kind_with_value(it, elems.get(i).copied(), defs, depth + 1))
                                .collect();
                            format!("tuple[{}]", ks.join(","))
                        } else {
                            "tuple".into()
                        }
                    }
                    (it, fixed) => {
                        let base = if fixed {
                            "fixed-array"
                        } else if o.get("uniqueItems") == Some(&Value::Bool(true)) {
                            "set"
                        } else {
                            "array"
                        };
                        match (it, elems.is_empty()) {
                            (Some(it), false) if deep => {
                                // every distinct element kind (an array default may mix variants)
                                let ks: BTreeSet<String> = elems
                                    .iter()
                                    .take(6)
                                    .map(|e| kind_with_value(it, Some(e), defs, depth + 1))
                                    .collect();
                                format!("{base}[{}]", ks.into_iter().collect::<Vec<_>>().join("|"))
                            }
                            _ => base.into(),
                        }
                    }
                }
            }
            "object" => {
                let props = o.get("properties").and_then(|p| p.as_object());
                let has_props = props.map(|p| !p.is_empty()).unwrap_or(false);
                let addl = o.get("additionalProperties").filter(|a| a.is_object());
                let members = value.and_then(|v| v.as_object());
                let deep = depth < 3;
                match (has_props, addl) {
                    (true, a) => {
                        let base = if a.is_some() { "struct+flattened-map" } else { "struct" };
                        match (members, deep) {
                            (Some(m), true) if !m.is_empty() => {
                                let mut ks: BTreeSet<String> = BTreeSet::new();
                                for (k, v) in m {
                                    if let Some(ps) = props.and_then(|p| p.get(k)) {
                                        ks.insert(kind_with_value(ps, Some(v), defs, depth + 1));
                                    } else {
                                        ks.insert("extra-member".into());
                                    }
                                }
                                format!("{base}{{{}}}", ks.into_iter().collect::<Vec<_>>().join(","))
                            }
                            _ => base.into(),
                        }
                    }
                    (false, Some(a)) => match (members, deep) {
                        (Some(m), true) if !m.is_empty() => {
                            let ks: BTreeSet<String> = m
                                .values()
                                .take(6)
                                .map(|v| kind_with_value(a, Some(v), defs, depth + 1))
                                .collect();
                            format!("map[{}]", ks.into_iter().collect::<Vec<_>>().join("|"))
                        }
                        _ => "map".into(),
                    },
                    (false, None) => "map".into(),
                }
            }
            other => other.to_string(),
        },
        Some(Value::Array(ts)) => {
            let mut inner: Vec<&str> = ts.iter().filter_map(|t| t.as_str()).filter(|t| *t != "null").collect();
            inner.sort();
            let fmt = match o.get("format") {
                Some(Value::String(f)) => format!(":{f}"),
                _ => String::new(),
            };
            format!("nullable:{}{fmt}", inner.join(","))
        }
        _ => "untyped".into(),
    }
}

pub fn site_class(stripped_schema: &Value, value: &Value, defs: &Defs) -> String {
    kind_with_value(stripped_schema, Some(value), defs, 0)
}

/// Atoms of a class string: the node descriptions without container syntax.
pub fn class_atoms(class: &str) -> BTreeSet<String> {
    class
        .split(|c| matches!(c, '[' | ']' | '{' | '}' | ',' | '>' | '+' | '|'))
        .map(|s| s.trim().to_string())
        .filter(|s| !s.is_empty())
        .collect()
}

/// The minimal invalid parts of an invalid (schema, value) pair: descend while
/// some child is invalid on its own; a node none of whose children is invalid
/// is itself the culprit (wrong type, missing member, arity, duplicate...).
pub fn invalid_atoms(schema: &Value, value: &Value, defs: &Defs, depth: u32, out: &mut BTreeSet<String>) {
    if depth > 12 || validate(schema, value, defs, 0) != Some(false) {
        return;
    }
    let s = deref(schema, defs, 0);
    let before = out.len();
    match value {
        Value::Array(items) => match s.get("items") {
            Some(Value::Array(schemas)) => {
                for (i, it) in items.iter().enumerate() {
                    if let Some(sub) = schemas.get(i) {
                        invalid_atoms(sub, it, defs, depth + 1, out);
                    }
                }
            }
            Some(sub @ Value::Object(_)) => {
                for it in items {
                    invalid_atoms(sub, it, defs, depth + 1, out);
                }
            }
            _ => {}
        },
        Value::Object(members) => {
            let props = s.get("properties").and_then(|p| p.as_object());
            for (k, v) in members {
                if let Some(ps) = props.and_then(|p| p.get(k)) {
                    invalid_atoms(ps, v, defs, depth + 1, out);
                } else if let Some(a @ Value::Object(_)) = s.get("additionalProperties") {
                    invalid_atoms(a, v, defs, depth + 1, out);
                }
            }
        }
        _ => {}
    }
    for key in ["anyOf", "oneOf"] {
        if let Some(Value::Array(subs)) = s.get(key) {
            // nullable wrapper: descend into the non-null branch
            let nullable_wrapper = subs.len() == 2 && subs.iter().any(|sub| sub.get("type") == Some(&Value::String("null".into())));
            if nullable_wrapper && !value.is_null() {
                for sub in subs {
                    if sub.get("type") != Some(&Value::String("null".into())) {
                        invalid_atoms(sub, value, defs, depth + 1, out);
                    }
                }
            } else if let Value::Object(members) = value {
                // an enum of object alternatives: when exactly ONE alternative has
                // the shape of the value (declares all its members, none of its
                // required members is absent), the invalid part lies inside it
                let shaped: Vec<&Value> = subs
                    .iter()
                    .filter(|sub| {
                        let d = deref(sub, defs, 0);
                        let Some(props) = d.get("properties").and_then(|p| p.as_object()) else { return false };
                        let declared = members.keys().all(|k| props.contains_key(k));
                        let required_present = d
                            .get("required")
                            .and_then(|r| r.as_array())
                            .map(|r| r.iter().all(|k| k.as_str().map(|k| members.contains_key(k)).unwrap_or(true)))
                            .unwrap_or(true);
                        // constant-valued members (tags) of the alternative agree with the value
                        let tags_agree = props.iter().all(|(k, ps)| match (single_string_enum(ps), members.get(k)) {
                            (Some(c), Some(Value::String(v))) => c == v,
                            _ => true,
                        });
                        declared && required_present && tags_agree && !members.is_empty()
                    })
                    .collect();
                if shaped.len() == 1 {
                    invalid_atoms(shaped[0], value, defs, depth + 1, out);
                }
            } else if !nullable_wrapper && !value.is_null() {
                // an untagged alternative told apart by its JSON type (the one array
                // alternative for an array value, ...): the invalid part lies inside it
                let kind = value_kind(value);
                let typed: Vec<&Value> = subs
                    .iter()
                    .filter(|sub| {
                        let d = deref(sub, defs, 0);
                        match d.get("type").and_then(|t| t.as_str()) {
                            Some("array") => kind == "array",
                            Some("string") => kind == "string",
                            Some("boolean") => kind == "bool",
                            Some("integer") | Some("number") => kind == "number",
                            _ => false,
                        }
                    })
                    .collect();
                if typed.len() == 1 {
                    invalid_atoms(typed[0], value, defs, depth + 1, out);
                }
            }
        }
    }
    if out.len() == before {
        // shallow description of this node with its value kind; `nested>` marks a
        // part inside a larger default value (typify validates those by the
        // member's TYPE, without the member schema's own keywords)
        let k = kind_inner(s, None, defs, 9);
        let k = if is_reference(schema) { format!("ref>{k}") } else { k };
        let k = if depth > 0 { format!("nested>{k}") } else { k };
        out.insert(format!("{k}/{}", value_kind(value)));
    }
}


fn walk_defaults(schema: &Value, path: &str, defs: &Defs, out: &mut Vec<DefaultSite>) {
    let Some(o) = schema.as_object() else { return };
    if let Some(d) = o.get("default") {
        let mut stripped = o.clone();
        stripped.remove("default");
        let stripped = Value::Object(stripped);
        let valid = validate(&stripped, d, defs, 0);
        let class = site_class(&stripped, d, defs);
        let mut atoms = BTreeSet::new();
        if valid == Some(false) {
            invalid_atoms(&stripped, d, defs, 0, &mut atoms);
        }
        out.push(DefaultSite {
            path: path.to_string(),
            value: d.clone(),
            schema: schema.clone(),
            valid,
            ident: site_ident(&stripped, d, &class),
            class,
            invalid_atoms: atoms.into_iter().collect(),
        });
    }
    for key in ["properties", "definitions"] {
        if let Some(Value::Object(m)) = o.get(key) {
            for (k, v) in m {
                walk_defaults(v, &format!("{path}/{key}/{k}"), defs, out);
            }
        }
    }
    for key in ["items", "additionalProperties", "additionalItems", "not"] {
        match o.get(key) {
            Some(Value::Array(vs)) => {
                for (i, v) in vs.iter().enumerate() {
                    walk_defaults(v, &format!("{path}/{key}/{i}"), defs, out);
                }
            }
            Some(v @ Value::Object(_)) => walk_defaults(v, &format!("{path}/{key}"), defs, out),
            _ => {}
        }
    }
    for key in ["oneOf", "anyOf", "allOf"] {
        if let Some(Value::Array(vs)) = o.get(key) {
            for (i, v) in vs.iter().enumerate() {
                walk_defaults(v, &format!("{path}/{key}/{i}"), defs, out);
            }
        }
    }
}

/// Identity of a default site that does not depend on where it sits: class,
/// value and a digest of the annotated schema.
pub fn site_ident(stripped_schema: &Value, value: &Value, class: &str) -> String {
    format!(
        "{class}|{value}|{:x}",
        crate::prng::fnv64(stripped_schema.to_string().as_bytes())
    )
}

/// Copy of `schema` with the `default` annotations removed for which
/// `keep(ident, class, valid)` is false. Used to attribute a failure to one
/// default (or one class of defaults) by isolation.
pub fn strip_defaults_by(
    schema: &Value,
    defs: &Defs,
    keep: &dyn Fn(&str, &str, Option<bool>) -> bool,
) -> Value {
    match schema {
        Value::Object(o) => {
            let mut out = Map::new();
            for (k, v) in o {
                if k == "default" {
                    let mut stripped = o.clone();
                    stripped.remove("default");
                    let stripped = Value::Object(stripped);
                    let class = site_class(&stripped, v, defs);
                    let valid = validate(&stripped, v, defs, 0);
                    let ident = site_ident(&stripped, v, &class);
                    if keep(&ident, &class, valid) {
                        out.insert(k.clone(), v.clone());
                    }
                } else if k == "enum" || k == "const" || k == "required" {
                    out.insert(k.clone(), v.clone());
                } else {
                    out.insert(k.clone(), strip_defaults_by(v, defs, keep));
                }
            }
            Value::Object(out)
        }
        Value::Array(a) => Value::Array(a.iter().map(|v| strip_defaults_by(v, defs, keep)).collect()),
        other => other.clone(),
    }
}

/// A (valid) default with the members it omits filled in from the members'
/// own schema defaults, recursively: "the schema's default up to filling of
/// nested defaults".
pub fn fill_nested_defaults(value: &Value, schema: &Value, defs: &Defs, depth: u32) -> Value {
    if depth > 8 {
        return value.clone();
    }
    let s = deref(schema, defs, 0);
    match value {
        Value::Object(m) => {
            let Some(props) = s.get("properties").and_then(|p| p.as_object()) else { return value.clone() };
            let mut out = Map::new();
            for (k, v) in m {
                match props.get(k) {
                    Some(ps) => out.insert(k.clone(), fill_nested_defaults(v, ps, defs, depth + 1)),
                    None => out.insert(k.clone(), v.clone()),
                };
            }
            for (k, ps) in props {
                if out.contains_key(k) {
                    continue;
                }
                // the default sits on the property schema itself, or next to a reference.
                // Members whose schema is an INLINE object are left out: typify does not
                // honour their default at all (known finding `property-defaults:absent|struct{…`),
                // which the probes of the enclosing type report on their own.
                if ps.get("type") == Some(&Value::String("object".into())) && ps.get("$ref").is_none() && ps.get("allOf").is_none() {
                    continue;
                }
                if let Some(d) = ps.get("default") {
                    let mut stripped = ps.clone();
                    if let Some(o) = stripped.as_object_mut() {
                        o.remove("default");
                    }
                    if validate(&stripped, d, defs, 0) == Some(true) {
                        out.insert(k.clone(), fill_nested_defaults(d, &stripped, defs, depth + 1));
                    }
                }
            }
            Value::Object(out)
        }
        Value::Array(items) => match s.get("items") {
            Some(Value::Array(schemas)) => Value::Array(
                items
                    .iter()
                    .enumerate()
                    .map(|(i, it)| schemas.get(i).map(|sc| fill_nested_defaults(it, sc, defs, depth + 1)).unwrap_or_else(|| it.clone()))
                    .collect(),
            ),
            Some(sc @ Value::Object(_)) => Value::Array(items.iter().map(|it| fill_nested_defaults(it, sc, defs, depth + 1)).collect()),
            _ => value.clone(),
        },
        other => other.clone(),
    }
}

pub fn default_sites(schema: &Value, path: &str, defs: &Defs) -> Vec<DefaultSite> {
    let mut out = Vec::new();
    walk_defaults(schema, path, defs, &mut out);
    out
}

/// How a `$ref` edge is reached from its owning definition.
#[derive(Debug, Clone, Copy, PartialEq, Eq, PartialOrd, Ord)]
pub enum Via {
    ByValue,
    Heap,
}

fn walk_refs(schema: &Value, via: Via, out: &mut Vec<(String, Via)>) {
    let Some(o) = schema.as_object() else { return };
    if let Some(Value::String(r)) = o.get("$ref") {
        if let Some(n) = r
            .strip_prefix("#/definitions/")
            .or_else(|| r.strip_prefix("#/$defs/"))
        {
            out.push((n.to_string(), via));
        }
    }
    if let Some(Value::Object(props)) = o.get("properties") {
        for v in props.values() {
            walk_refs(v, via, out);
        }
    }
    // a map's values live on the heap
    if let Some(v @ Value::Object(_)) = o.get("additionalProperties") {
        walk_refs(v, Via::Heap, out);
    }
    match o.get("items") {
        Some(Value::Array(vs)) => {
            // tuple: by value when min == max > 0, otherwise typify rejects or makes a Vec
            let fixed = o.get("minItems").is_some() && o.get("minItems") == o.get("maxItems");
            for v in vs {
                walk_refs(v, if fixed { via } else { Via::Heap }, out);
            }
        }
        Some(v @ Value::Object(_)) => {
            let fixed = o.get("minItems").is_some()
                && o.get("minItems") == o.get("maxItems")
                && o.get("minItems").and_then(|m| m.as_u64()).unwrap_or(0) > 0
                && o.get("uniqueItems").is_none();
            walk_refs(v, if fixed { via } else { Via::Heap }, out);
        }
        _ => {}
    }
    for key in ["oneOf", "anyOf", "allOf"] {
        if let Some(Value::Array(vs)) = o.get(key) {
            for v in vs {
                walk_refs(v, via, out);
            }
        }
    }
}

/// By-value containment edges between the given definitions: `A -> B` when a
/// value of (the natural Rust rendering of) `A` contains a `B` without any
/// `Vec`/map/set in between.
pub fn by_value_graph(defs: &Defs) -> BTreeMap<String, BTreeSet<String>> {
    let mut g = BTreeMap::new();
    for (name, schema) in defs {
        let mut refs = Vec::new();
        walk_refs(schema, Via::ByValue, &mut refs);
        let set: BTreeSet<String> = refs
            .into_iter()
            .filter(|(_, via)| *via == Via::ByValue)
            .map(|(n, _)| n)
            .collect();
        g.insert(name.clone(), set);
    }
    g
}

/// All `$ref` targets (any edge kind) of one schema.
pub fn ref_targets(schema: &Value) -> BTreeSet<String> {
    let mut refs = Vec::new();
    walk_refs(schema, Via::ByValue, &mut refs);
    refs.into_iter().map(|(n, _)| n).collect()
}

pub fn has_cycle(g: &BTreeMap<String, BTreeSet<String>>) -> bool {
    // iterative three-colour DFS
    let mut colour: BTreeMap<&str, u8> = BTreeMap::new();
    for start in g.keys() {
        if colour.get(start.as_str()).copied().unwrap_or(0) != 0 {
            continue;
        }
        let mut stack: Vec<(&str, Vec<&str>)> = vec![(
            start.as_str(),
            g[start].iter().map(|s| s.as_str()).collect(),
        )];
        colour.insert(start.as_str(), 1);
        while let Some((node, children)) = stack.last_mut() {
            if let Some(c) = children.pop() {
                match colour.get(c).copied().unwrap_or(0) {
                    1 => return true,
                    2 => {}
                    _ => {
                        if let Some(cs) = g.get(c) {
                            colour.insert(c, 1);
                            stack.push((c, cs.iter().map(|s| s.as_str()).collect()));
                        }
                    }
                }
            } else {
                colour.insert(*node, 2);
                stack.pop();
            }
        }
    }
    false
}

pub fn obj(pairs: Vec<(&str, Value)>) -> Value {
    let mut m = Map::new();
    for (k, v) in pairs {
        m.insert(k.to_string(), v);
    }
    Value::Object(m)
}

#[cfg(test)]
mod tests {
    use super::*;
    use serde_json::json;

    #[test]
    fn validator_basics() {
        let defs = Defs::new();
        let v = |s: Value, i: Value| validate(&s, &i, &defs, 0);
        assert_eq!(v(json!({"type":"integer","format":"uint8"}), json!(300)), Some(false));
        assert_eq!(v(json!({"type":"integer","format":"uint8"}), json!(30)), Some(true));
        assert_eq!(v(json!({"type":"string"}), json!(5)), Some(false));
        assert_eq!(v(json!({"type":["string","null"]}), json!(null)), Some(true));
        assert_eq!(
            v(json!({"type":"array","items":{"type":"integer"},"uniqueItems":true}), json!([1, 1])),
            Some(false)
        );
        assert_eq!(
            v(
                json!({"type":"array","items":[{"type":"integer"},{"type":"string"}],"minItems":2,"maxItems":2}),
                json!([1])
            ),
            Some(false)
        );
        assert_eq!(
            v(json!({"type":"object","properties":{"a":{"type":"integer"}},"required":["a"]}), json!({})),
            Some(false)
        );
    }

    #[test]
    fn cycles() {
        let mut defs = Defs::new();
        defs.insert("A".into(), json!({"type":"object","properties":{"b":{"$ref":"#/definitions/B"}}}));
        defs.insert("B".into(), json!({"type":"object","properties":{"a":{"type":"array","items":{"$ref":"#/definitions/A"}}}}));
        assert!(!has_cycle(&by_value_graph(&defs)));
        defs.insert("B".into(), json!({"type":"object","properties":{"a":{"$ref":"#/definitions/A"}}}));
        assert!(has_cycle(&by_value_graph(&defs)));
    }
}
