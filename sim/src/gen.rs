//! Workload generator: seed -> RunDesc. Every choice is drawn from the one
//! PRNG of the run, in a fixed order. The generator stays inside the fragment
//! schemars emits plus what README documents; names are well-formed and
//! distinct on purpose (name mangling is C08's business, not a history's).

use std::collections::{BTreeMap, BTreeSet};

use serde_json::{json, Map, Value};

use crate::desc::{ConversionDesc, Op, PatchDesc, ReplaceDesc, RunDesc, SettingsDesc, Variant};
use crate::model::{self, Defs};
use crate::prng::Rng;

/// Per-run "swarm" configuration: which features this run may use.
#[derive(Debug, Clone)]
pub struct Swarm {
    pub n_components: usize,
    pub max_defs: usize,
    pub enums: bool,
    pub tagged: bool,
    pub tuples: bool,
    pub maps: bool,
    pub sets: bool,
    pub nullable: bool,
    pub inline: bool,
    pub formats: bool,
    /// property names / enum values that need escaping or sanitising, or that
    /// sanitise to the same Rust identifier
    pub awkward: bool,
    /// most optional properties (and many named types) carry a default; few
    /// properties are required
    pub dense_defaults: bool,
    /// 0 none, 1 valid only, 2 valid and invalid
    pub defaults: u8,
    /// 0 no back references, 1 some, 2 many
    pub cycles: u8,
    pub shuffle_within_component: bool,
    pub readd: bool,
    pub addtype: bool,
    pub settings_variety: bool,
    pub relation: Option<&'static str>,
    pub faults: bool,
}

/// What a check wants the generator to emphasise.
#[derive(Debug, Clone, Copy, PartialEq, Eq)]
pub enum Focus {
    /// C16: histories, repeats, relations H1/H2
    Histories,
    /// C01: everything, relations H1-H3
    Compile,
    /// C06: defaults valid and invalid, all three routes
    Defaults,
    /// C07: reference graphs, definition order
    Cycles,
    /// C12: hash keys (H4)
    Determinism,
    /// C06 value stage: valid defaults, densely placed, on every type kind
    Values,
    /// repository fixtures (real-world schema shapes) inside histories
    Fixtures,
    /// the two large fixtures (github.json, vega.json), hash keys only
    FixturesBig,
}

impl Swarm {
    pub fn draw(rng: &mut Rng, focus: Focus, faults: bool) -> Swarm {
        let mut s = Swarm {
            n_components: rng.range(1, 5),
            max_defs: rng.range(1, 5),
            enums: rng.chance(3, 4),
            tagged: rng.chance(2, 3),
            tuples: rng.chance(1, 2),
            maps: rng.chance(1, 2),
            sets: rng.chance(1, 3),
            nullable: rng.chance(2, 3),
            inline: rng.chance(1, 2),
            formats: rng.chance(1, 2),
            awkward: false,
            dense_defaults: false,
            defaults: *rng.pick(&[0u8, 0, 1, 1, 1]),
            cycles: *rng.pick(&[0u8, 0, 1, 1, 2]),
            shuffle_within_component: false,
            readd: rng.chance(1, 2),
            addtype: rng.chance(2, 3),
            settings_variety: rng.chance(3, 4),
            relation: None,
            faults,
        };
        match focus {
            Focus::Histories => {
                s.n_components = rng.range(2, 6);
                s.relation = *rng.pick(&[None, Some("H1"), Some("H2"), Some("H1"), Some("H2")]);
            }
            Focus::Compile => {
                s.relation = *rng.pick(&[None, None, Some("H1"), Some("H2"), Some("H3")]);
            }
            Focus::Defaults => {
                s.defaults = *rng.pick(&[1u8, 2, 2]);
                s.relation = *rng.pick(&[None, None, Some("H3")]);
                s.n_components = rng.range(1, 3);
            }
            Focus::Cycles => {
                s.cycles = *rng.pick(&[0u8, 1, 2, 2]);
                s.shuffle_within_component = rng.chance(1, 2);
                s.max_defs = *rng.pick(&[1usize, 2, 2, 3, 3, 3, 4, 5, 6]);
                s.nullable = true;
                s.tuples = true;
                s.tagged = rng.chance(3, 4);
                s.defaults = 0;
            }
            Focus::Determinism => {
                // H4: another process (hash key); H5: the same process after it has
                // converted the same history many times (state that outlives a TypeSpace)
                // H1 here: the same definitions delivered in another order must render
                // byte-identically, not just define the same set (C12: the output depends
                // on the content of the document only)
                s.relation = match rng.below(8) {
                    0 => Some("H5"),
                    1 => Some("H1"),
                    _ => Some("H4"),
                };
                s.readd = false;
            }
            Focus::Values => {
                s.defaults = 1;
                s.dense_defaults = true;
                s.n_components = rng.range(1, 2);
                s.max_defs = rng.range(2, 5);
                s.enums = true;
                s.tagged = rng.chance(3, 4);
                s.cycles = 0;
                s.readd = false;
                s.relation = None;
            }
            Focus::Fixtures | Focus::FixturesBig => {
                s.n_components = rng.range(0, 2);
                s.relation = *rng.pick(&[None, Some("H3"), Some("H4"), Some("H4")]);
                s.defaults = *rng.pick(&[0u8, 1]);
            }
        }
        s.awkward = match focus {
            Focus::Compile => rng.chance(1, 2),
            Focus::Defaults => rng.chance(1, 3),
            Focus::Values => rng.chance(1, 2),
            Focus::Fixtures | Focus::FixturesBig => false,
            _ => rng.chance(1, 4),
        };
        if s.relation.is_some() {
            // relations compare like with like: see DESIGN §3.4
            s.readd = false;
            s.shuffle_within_component = false;
        }
        if faults {
            s.relation = None;
        }
        s
    }
}

const WORDS: &[&str] = &[
    "Alpha", "Bravo", "Chart", "Delta", "Ember", "Flint", "Grove", "Haven", "Ivory", "Joule",
    "Knoll", "Lumen",
];
const PROPS: &[&str] = &[
    "id", "name", "count", "flag", "tags", "next", "left", "right", "child", "items", "meta",
    "value", "kind", "ratio", "size", "peer",
];
const ENUM_VALUES: &[&str] = &["red", "green", "blue", "north", "south", "east", "west", "up", "down"];
const INT_FORMATS: &[&str] = &["uint8", "uint16", "uint32", "uint64", "int8", "int16", "int32", "int64"];

/// Names with no identifier character at all (they sanitise to the empty string).
const EMPTY_NAMES: &[&str] = &["", "*", "$", "@", "-", " "];
/// Keywords and names that need a prefix, escaping or re-casing.
const ODD_NAMES: &[&str] = &["type", "ref", "match", "Self", "1st", "a b", "+1", "with-dash", "fooBar", "impl", "Mixed_Case", "x"];

/// String-enum values / variant names. With `awkward` names one stress pattern
/// is applied: a value that sanitises to nothing, two values that sanitise to
/// one identifier with another value between them (typify tells them apart by
/// spelling the elided character), keywords and values that need a prefix.
fn enum_values(rng: &mut Rng, sw: &Swarm, lo: usize, hi: usize) -> Vec<String> {
    let mut vals: Vec<&str> = ENUM_VALUES.to_vec();
    rng.shuffle(&mut vals);
    vals.truncate(rng.range(lo, hi));
    let mut vals: Vec<String> = vals.into_iter().map(|v| v.to_string()).collect();
    if sw.awkward && rng.chance(1, 2) {
        match rng.below(4) {
            0 => {
                let i = rng.below(vals.len());
                vals[i] = rng.pick(EMPTY_NAMES).to_string();
            }
            1 => {
                // colliding after case conversion, adjacent or not
                let (a, b) = *rng.pick(&[("foo_bar", "fooBar"), ("fooBar", "foo_bar"), ("half-open", "halfOpen"), ("a_b", "aB")]);
                if rng.chance(1, 3) {
                    vals.insert(0, b.to_string());
                    vals.insert(0, a.to_string());
                } else {
                    vals.insert(0, a.to_string());
                    vals.push(b.to_string());
                }
            }
            2 if rng.chance(1, 3) => {
                // a value that is format-string syntax
                let i = rng.below(vals.len());
                vals[i] = "{}".to_string();
            }
            _ => {
                let n = rng.range(1, 2);
                for _ in 0..n {
                    let v = rng.pick(ODD_NAMES).to_string();
                    if !vals.contains(&v) {
                        let i = rng.below(vals.len());
                        vals[i] = v;
                    }
                }
            }
        }
    }
    vals
}

/// Property names of one object. With `awkward` names some need escaping
/// (keywords), a prefix, or sanitise to the same field name as a sibling; the
/// flag says that the property belongs to such a group and takes a scalar type
/// (inline named types of colliding siblings would also share ONE type name,
/// which typify resolves by re-using the first type: a different question).
fn prop_names(rng: &mut Rng, sw: &Swarm, n: usize) -> Vec<(String, bool)> {
    let mut names: Vec<&str> = PROPS.to_vec();
    rng.shuffle(&mut names);
    names.truncate(n);
    let mut names: Vec<(String, bool)> = names.into_iter().map(|v| (v.to_string(), false)).collect();
    if sw.awkward && n > 0 && rng.chance(1, 2) {
        match rng.below(5) {
            0 => {
                // two or three names that sanitise to one field name
                let group: &[&str] = *rng.pick(&[
                    &["fooBar", "foo_bar"][..],
                    &["foo-bar", "fooBar", "foo_bar"][..],
                    &["$", "*"][..],
                    &["", "@"][..],
                    &["Self", "self"][..],
                    &["a_b", "aB"][..],
                ]);
                for g in group {
                    names.push((g.to_string(), true));
                }
            }
            1 => names.push((rng.pick(EMPTY_NAMES).to_string(), false)),
            2 => names.push(("extra".to_string(), false)),
            _ => {
                for _ in 0..rng.range(1, 2) {
                    let v = rng.pick(ODD_NAMES).to_string();
                    if !names.iter().any(|(n, _)| n == &v) {
                        names.push((v, false));
                    }
                }
            }
        }
    }
    names.sort();
    names.dedup_by(|a, b| a.0 == b.0);
    names
}

fn r(name: &str) -> Value {
    json!({ "$ref": format!("#/definitions/{name}") })
}

struct Ctx<'a> {
    sw: &'a Swarm,
    /// definitions of the component under construction that may be referenced
    targets: Vec<String>,
    /// probability (in 1/8) that a type expression is a reference
    ref_weight: usize,
    /// unique-title counter
    titles: usize,
    prefix: String,
}

fn gen_scalar(rng: &mut Rng, sw: &Swarm) -> Value {
    if sw.formats && rng.chance(1, 10) {
        // string formats that map to library types (uuid, chrono, std::net)
        return json!({"type": "string", "format": *rng.pick(&["uuid", "date-time", "date", "ip", "ipv4"])});
    }
    match rng.below(if sw.formats { 7 } else { 4 }) {
        0 => json!({"type": "string"}),
        1 => json!({"type": "integer"}),
        2 => json!({"type": "boolean"}),
        3 => json!({"type": "number"}),
        4 => json!({"type": "integer", "format": *rng.pick(INT_FORMATS)}),
        5 => json!({"type": "integer", "format": *rng.pick(INT_FORMATS), "minimum": 1.0}),
        _ => json!({"type": "number", "format": "double"}),
    }
}

/// A type expression usable as a property / item / payload schema.
/// `in_property`: inline objects/enums take their name from the enclosing
/// property, so they are only generated there (or with a title).
fn gen_type(rng: &mut Rng, cx: &mut Ctx, depth: u32, in_property: bool) -> Value {
    if !cx.targets.is_empty() && rng.chance(cx.ref_weight, 8) {
        let t = rng.pick(&cx.targets).clone();
        // edge kind towards another definition
        return match rng.below(if depth >= 2 { 2 } else { 8 }) {
            0 | 1 => r(&t),
            2 if cx.sw.nullable => json!({"anyOf": [r(&t), {"type": "null"}]}),
            3 if cx.sw.nullable => json!({"oneOf": [r(&t), {"type": "null"}]}),
            4 => json!({"type": "array", "items": r(&t)}),
            5 if cx.sw.maps => json!({"type": "object", "additionalProperties": r(&t)}),
            6 if cx.sw.tuples && rng.chance(1, 4) => {
                // the same definition in two slots of one tuple
                json!({"type": "array", "items": [r(&t), r(&t)], "minItems": 2, "maxItems": 2})
            }
            6 if cx.sw.tuples => {
                let other = gen_scalar(rng, cx.sw);
                if rng.chance(1, 2) {
                    json!({"type": "array", "items": [r(&t), other], "minItems": 2, "maxItems": 2})
                } else {
                    json!({"type": "array", "items": [other, r(&t)], "minItems": 2, "maxItems": 2})
                }
            }
            7 if cx.sw.tuples => {
                let n = rng.range(1, 3);
                json!({"type": "array", "items": r(&t), "minItems": n, "maxItems": n})
            }
            _ => r(&t),
        };
    }
    let choice = rng.below(if depth >= 2 { 3 } else { 10 });
    match choice {
        0..=2 => gen_scalar(rng, cx.sw),
        3 => {
            let it = gen_type(rng, cx, depth + 1, false);
            json!({"type": "array", "items": it})
        }
        4 if cx.sw.sets => {
            let it = if rng.chance(1, 2) {
                json!({"type": "string"})
            } else {
                json!({"type": "integer", "format": *rng.pick(INT_FORMATS)})
            };
            json!({"type": "array", "items": it, "uniqueItems": true})
        }
        5 if cx.sw.maps && cx.sw.defaults == 0 && rng.chance(1, 4) => {
            // a map whose keys are constrained by several patterns (one value
            // schema): typify joins the patterns into the key type's regex
            let it = gen_scalar(rng, cx.sw);
            let mut pats = vec!["^a", "^[b-d]+$", "^x-", "_id$", "^k[0-9]$"];
            rng.shuffle(&mut pats);
            pats.truncate(rng.range(2, 4));
            let mut pp = Map::new();
            for p in pats {
                pp.insert(p.to_string(), it.clone());
            }
            json!({"type": "object", "patternProperties": pp, "additionalProperties": false})
        }
        5 if cx.sw.maps => {
            let it = gen_type(rng, cx, depth + 1, false);
            json!({"type": "object", "additionalProperties": it})
        }
        6 if cx.sw.tuples => {
            let n = rng.range(2, 3);
            let items: Vec<Value> = (0..n).map(|_| gen_scalar(rng, cx.sw)).collect();
            json!({"type": "array", "items": items, "minItems": n, "maxItems": n})
        }
        7 if cx.sw.nullable => match rng.below(3) {
            0 => json!({"type": ["string", "null"]}),
            1 => json!({"type": ["integer", "null"]}),
            _ => json!({"type": ["boolean", "null"]}),
        },
        8 if cx.sw.enums && (in_property || rng.chance(1, 2)) => {
            let vals = enum_values(rng, cx.sw, 2, 4);
            let mut e = json!({"type": "string", "enum": vals});
            if !in_property {
                cx.titles += 1;
                e["title"] = json!(format!("{}T{}", cx.prefix, cx.titles));
            }
            e
        }
        9 if cx.sw.inline && depth < 2 && (in_property || rng.chance(1, 2)) => {
            let mut o = gen_object(rng, cx, depth + 1, 1, 2);
            if !in_property || rng.chance(1, 4) {
                cx.titles += 1;
                o["title"] = json!(format!("{}T{}", cx.prefix, cx.titles));
            }
            o
        }
        _ => gen_scalar(rng, cx.sw),
    }
}

fn gen_object(rng: &mut Rng, cx: &mut Ctx, depth: u32, lo: usize, hi: usize) -> Value {
    let n = rng.range(lo, hi);
    let names = prop_names(rng, cx.sw, n);
    let mut props = Map::new();
    let mut required = Vec::new();
    for (p, scalar) in names {
        let t = if scalar { gen_scalar(rng, cx.sw) } else { gen_type(rng, cx, depth, true) };
        props.insert(p.clone(), t);
        if if cx.sw.dense_defaults { rng.chance(1, 5) } else { rng.chance(3, 5) } {
            required.push(json!(p));
        }
    }
    // rarely, two sibling properties carry inline objects with the SAME title and
    // different content: typify keeps the first by name (in property-name order)
    if cx.sw.inline && cx.sw.defaults == 0 && depth < 2 && props.len() >= 2 && rng.chance(1, 8) {
        cx.titles += 1;
        let title = format!("{}T{}", cx.prefix, cx.titles);
        let keys: Vec<String> = props.keys().take(2).cloned().collect();
        for (i, k) in keys.iter().enumerate() {
            props.insert(
                k.clone(),
                json!({"type": "object", "title": title, "properties": {format!("m{i}"): if i == 0 { json!({"type": "string"}) } else { json!({"type": "integer"}) }}}),
            );
        }
    }
    let mut o = json!({"type": "object", "properties": props});
    if !required.is_empty() {
        o["required"] = Value::Array(required);
    }
    if rng.chance(1, 5) {
        o["additionalProperties"] = json!(false);
    } else if cx.sw.maps && cx.sw.defaults == 0 && rng.chance(1, 6) {
        // an open object whose extra members are typed: a flattened map member
        o["additionalProperties"] = gen_scalar(rng, cx.sw);
    }
    o
}

fn gen_tagged_enum(rng: &mut Rng, cx: &mut Ctx) -> Value {
    let vnames = enum_values(rng, cx.sw, 2, 3);
    let style = rng.below(5);
    let mut variants = Vec::new();
    match style {
        0 => {
            // externally tagged
            if rng.chance(1, 2) {
                variants.push(json!({"type": "string", "enum": ["idle", "busy"]}));
            }
            for v in &vnames {
                let payload = if cx.sw.tuples && !cx.targets.is_empty() && rng.chance(1, 4) {
                    // a tuple variant with a named type in one slot
                    let t = rng.pick(&cx.targets).clone();
                    json!({"type": "array", "items": [r(&t), gen_scalar(rng, cx.sw)], "minItems": 2, "maxItems": 2})
                } else if rng.chance(1, 2) {
                    gen_type(rng, cx, 1, false)
                } else {
                    gen_object(rng, cx, 2, 1, 2)
                };
                let mut props = Map::new();
                props.insert(v.to_string(), payload);
                variants.push(json!({"type": "object", "properties": props, "required": [v], "additionalProperties": false}));
            }
        }
        1 => {
            // internally tagged; sometimes with a second constant property, so
            // that two properties qualify as the tag
            let second_constant = rng.chance(1, 3);
            for (vi, v) in vnames.iter().enumerate() {
                let mut o = gen_object(rng, cx, 2, 0, 2);
                if second_constant {
                    o["properties"]["kind"] = json!({"type": "string", "enum": [format!("k{vi}")]});
                    let mut req: Vec<Value> = o.get("required").and_then(|x| x.as_array()).cloned().unwrap_or_default();
                    req.retain(|r| r != &json!("kind"));
                    req.push(json!("kind"));
                    o["required"] = Value::Array(req);
                }
                o["properties"]["type"] = json!({"type": "string", "enum": [v]});
                let mut req: Vec<Value> = o
                    .get("required")
                    .and_then(|x| x.as_array())
                    .cloned()
                    .unwrap_or_default();
                req.push(json!("type"));
                o["required"] = Value::Array(req);
                if let Some(m) = o.as_object_mut() {
                    m.remove("additionalProperties");
                }
                variants.push(o);
            }
        }
        2 => {
            // adjacently tagged
            for v in &vnames {
                let payload = gen_type(rng, cx, 1, false);
                variants.push(json!({
                    "type": "object",
                    "properties": {"t": {"type": "string", "enum": [v]}, "c": payload},
                    "required": ["t", "c"],
                    "additionalProperties": false
                }));
            }
        }
        4 => {
            // anyOf of object branches that declare the same property names and
            // are told apart by constant-valued properties: some constants are
            // equal in every branch, at least one differs (exclusivity analysis)
            let n_const = rng.range(2, 3);
            let const_names = ["kind", "type", "flag"];
            let differing = rng.below(n_const);
            let mut branches = Vec::new();
            for (vi, v) in vnames.iter().enumerate() {
                let mut props = Map::new();
                let mut req = Vec::new();
                for (ci, cn) in const_names.iter().take(n_const).enumerate() {
                    let val = if ci == differing || rng.chance(1, 4) { format!("{v}{ci}") } else { format!("same{ci}") };
                    let _ = vi;
                    props.insert(cn.to_string(), json!({"type": "string", "enum": [val]}));
                    req.push(json!(cn));
                }
                props.insert("size".to_string(), json!({"type": "integer"}));
                branches.push(json!({"type": "object", "properties": props, "required": req}));
            }
            if rng.chance(1, 2) {
                branches.push(json!({"type": "string"}));
            }
            return json!({ "anyOf": branches });
        }
        _ => {
            // untagged: alternatives of distinct JSON types; the string alternative
            // is sometimes an inline string enum (a named sub-type of the enum)
            if cx.sw.enums && rng.chance(1, 2) {
                let vals = enum_values(rng, cx.sw, 2, 3);
                variants.push(json!({"type": "string", "enum": vals}));
            } else {
                variants.push(json!({"type": "string"}));
            }
            variants.push(json!({"type": "integer"}));
            if !cx.targets.is_empty() && rng.chance(1, 2) {
                let t = rng.pick(&cx.targets).clone();
                variants.push(json!({"type": "array", "items": r(&t)}));
            } else {
                variants.push(json!({"type": "boolean"}));
            }
            if !cx.targets.is_empty() && cx.sw.cycles == 0 && rng.chance(1, 2) {
                // what schemars emits for `#[serde(untagged)] enum { A(TypeA), Other(i64) }`:
                // an alternative that is a bare reference to another definition
                let t = rng.pick(&cx.targets).clone();
                variants.retain(|v| v.get("type") != Some(&json!("boolean")) && v.get("type") != Some(&json!("array")));
                variants.push(r(&t));
                return json!({ "anyOf": variants });
            }
        }
    }
    json!({ "oneOf": variants })
}

/// One definition of the component (a schema for `#/definitions/<name>`).
fn gen_definition(rng: &mut Rng, cx: &mut Ctx) -> Value {
    let kinds: &[u8] = &[0, 0, 0, 0, 1, 2, 2, 3, 4, 5];
    loop {
        match *rng.pick(kinds) {
            0 => return gen_object(rng, cx, 0, 1, 4),
            1 if cx.sw.enums => {
                let vals = enum_values(rng, cx.sw, 2, 4);
                return json!({"type": "string", "enum": vals});
            }
            2 if cx.sw.tagged => return gen_tagged_enum(rng, cx),
            3 if !cx.targets.is_empty() && cx.sw.nullable && rng.chance(1, 3) => {
                // a definition that is nothing but a nullable wrapper of another
                // definition (possibly of itself, possibly of another such wrapper)
                // (anyOf, not oneOf: the target may itself admit null, and then `null`
                // would match both alternatives of a oneOf)
                let t = rng.pick(&cx.targets).clone();
                return json!({"anyOf": [r(&t), {"type": "null"}]});
            }
            3 if !cx.targets.is_empty() => {
                // newtype alias
                let t = rng.pick(&cx.targets).clone();
                return r(&t);
            }
            4 => {
                return match rng.below(4) {
                    0 => json!({"type": "string"}),
                    1 => json!({"type": "integer", "format": *rng.pick(INT_FORMATS)}),
                    2 => json!({"type": "string", "maxLength": rng.range(4, 12)}),
                    _ => json!({"type": "boolean"}),
                }
            }
            5 => {
                let it = gen_type(rng, cx, 1, false);
                if cx.sw.tuples && rng.chance(1, 2) {
                    let other = gen_scalar(rng, cx.sw);
                    return json!({"type": "array", "items": [it, other], "minItems": 2, "maxItems": 2});
                }
                return json!({"type": "array", "items": it});
            }
            _ => continue,
        }
    }
}

/// A valid instance of `schema` (model-side), or None when the generator does
/// not want to build one (depth, unsupported keyword).
pub fn gen_instance(rng: &mut Rng, schema: &Value, defs: &Defs, depth: u32) -> Option<Value> {
    if depth > 4 {
        return None;
    }
    let o = schema.as_object()?;
    if let Some(Value::String(rf)) = o.get("$ref") {
        let t = model::resolve_ref(rf, defs)?;
        return gen_instance(rng, t, defs, depth + 1);
    }
    if let Some(Value::Array(vals)) = o.get("enum") {
        return Some(rng.pick(vals).clone());
    }
    for key in ["anyOf", "oneOf"] {
        if let Some(Value::Array(subs)) = o.get(key) {
            // pick one branch; the model validator confirms (oneOf exclusivity)
            let s = rng.pick(subs);
            return gen_instance(rng, s, defs, depth + 1);
        }
    }
    let ty = match o.get("type") {
        Some(Value::String(s)) => s.as_str(),
        Some(Value::Array(ts)) => {
            let t = rng.pick(ts);
            t.as_str()?
        }
        _ => return None,
    };
    Some(match ty {
        "null" => Value::Null,
        "boolean" => json!(rng.chance(1, 2)),
        "string" if matches!(o.get("format").and_then(|f| f.as_str()), Some("uuid" | "date-time" | "date" | "ip" | "ipv4")) => {
            let pool: &[&str] = match o.get("format").and_then(|f| f.as_str()) {
                Some("uuid") => &["123e4567-e89b-12d3-a456-426614174000", "00000000-0000-0000-0000-000000000000"],
                Some("date-time") => &["2024-03-01T12:30:00Z", "1999-12-31T23:59:59Z"],
                Some("date") => &["2024-03-01", "1970-01-01"],
                Some("ip") => &["192.168.1.7", "::1", "10.0.0.1"],
                _ => &["10.0.0.1", "127.0.0.1"],
            };
            json!(*rng.pick(pool))
        }
        "string" => {
            let max = o.get("maxLength").and_then(|m| m.as_u64()).unwrap_or(8) as usize;
            let s: &str = *rng.pick(&["", "", "a", "hello", "zz top", "q\"uo", "b\\s", "t\tab", "\u{fc}ml"]);
            json!(s.chars().take(max).collect::<String>())
        }
        "integer" => {
            let min = o.get("minimum").and_then(|m| m.as_f64()).unwrap_or(0.0) as i64;
            let v = if rng.chance(1, 6) { min } else { min + rng.below(100) as i64 };
            let unsigned = o.get("format").and_then(|f| f.as_str()).map(|f| f.starts_with("uint")).unwrap_or(false);
            if o.get("minimum").is_none() && !unsigned && rng.chance(1, 3) {
                json!(-v)
            } else {
                json!(v)
            }
        }
        "number" => match rng.below(8) {
            0 => json!(-(rng.below(1000) as f64) / 8.0),
            // tiny but not zero, huge, integral spelling
            1 => json!(*rng.pick(&[1e-17, -1e-20, 2.5e-300])),
            2 => json!(*rng.pick(&[1e21, -3e25])),
            3 => json!(rng.below(50) as i64),
            _ => json!(rng.below(1000) as f64 / 8.0),
        },
        "array" => {
            match o.get("items") {
                Some(Value::Array(schemas)) => {
                    let mut out = Vec::new();
                    for s in schemas {
                        out.push(gen_instance(rng, s, defs, depth + 1)?);
                    }
                    Value::Array(out)
                }
                Some(s) => {
                    let fixed = o.get("minItems").and_then(|m| m.as_u64());
                    let n = fixed.unwrap_or(rng.below(3) as u64) as usize;
                    let mut out: Vec<Value> = Vec::new();
                    for _ in 0..n {
                        let v = gen_instance(rng, s, defs, depth + 1)?;
                        if o.get("uniqueItems") == Some(&Value::Bool(true)) && out.contains(&v) {
                            continue;
                        }
                        out.push(v);
                    }
                    Value::Array(out)
                }
                None => json!([]),
            }
        }
        "object" => {
            let mut m = Map::new();
            let req: BTreeSet<String> = o
                .get("required")
                .and_then(|x| x.as_array())
                .map(|a| a.iter().filter_map(|v| v.as_str().map(String::from)).collect())
                .unwrap_or_default();
            if let Some(Value::Object(props)) = o.get("properties") {
                for (k, s) in props {
                    if req.contains(k) || rng.chance(1, 2) {
                        m.insert(k.clone(), gen_instance(rng, s, defs, depth + 1)?);
                    }
                }
            }
            if let Some(s @ Value::Object(_)) = o.get("additionalProperties") {
                if rng.chance(1, 2) {
                    m.insert("extra".into(), gen_instance(rng, s, defs, depth + 1)?);
                }
            }
            Value::Object(m)
        }
        _ => return None,
    })
}

fn deref_schema<'a>(schema: &'a Value, defs: &'a Defs, depth: u32) -> &'a Value {
    if depth > 6 {
        return schema;
    }
    if let Some(Value::String(r)) = schema.get("$ref") {
        if let Some(t) = model::resolve_ref(r, defs) {
            return deref_schema(t, defs, depth + 1);
        }
    }
    if let Some(Value::Array(a)) = schema.get("allOf") {
        if a.len() == 1 {
            return deref_schema(&a[0], defs, depth + 1);
        }
    }
    schema
}

/// A value that is valid except for one nested part.
fn gen_deep_invalid(rng: &mut Rng, schema: &Value, defs: &Defs, depth: u32) -> Option<Value> {
    if depth > 3 {
        return None;
    }
    let s = deref_schema(schema, defs, 0);
    // nullable / single-alternative wrappers: go into the non-null branch
    for key in ["anyOf", "oneOf"] {
        if let Some(Value::Array(subs)) = s.get(key) {
            let non_null: Vec<&Value> = subs.iter().filter(|x| x.get("type") != Some(&json!("null"))).collect();
            if !non_null.is_empty() {
                let branch = *rng.pick(&non_null);
                // either an invalid value of the branch itself, or deeper
                return if rng.chance(1, 2) {
                    gen_invalid_instance_shallow(rng, branch, defs)
                } else {
                    gen_deep_invalid(rng, branch, defs, depth + 1)
                };
            }
        }
    }
    let mut v = gen_instance(rng, s, defs, 0)?;
    match &mut v {
        Value::Array(items) if !items.is_empty() => {
            let i = rng.below(items.len());
            let item_schema = match s.get("items") {
                Some(Value::Array(ss)) => ss.get(i)?.clone(),
                Some(x) => x.clone(),
                None => return None,
            };
            items[i] = if rng.chance(2, 3) {
                gen_invalid_instance_shallow(rng, &item_schema, defs)?
            } else {
                gen_deep_invalid(rng, &item_schema, defs, depth + 1)?
            };
            Some(v)
        }
        Value::Object(m) if !m.is_empty() => {
            let keys: Vec<String> = m.keys().cloned().collect();
            let k = rng.pick(&keys).clone();
            let member_schema = s
                .get("properties")
                .and_then(|p| p.get(&k))
                .cloned()
                .or_else(|| s.get("additionalProperties").filter(|a| a.is_object()).cloned())?;
            let nv = if rng.chance(2, 3) {
                gen_invalid_instance_shallow(rng, &member_schema, defs)?
            } else {
                gen_deep_invalid(rng, &member_schema, defs, depth + 1)?
            };
            m.insert(k, nv);
            Some(v)
        }
        _ => None,
    }
}

fn gen_invalid_instance_shallow(rng: &mut Rng, schema: &Value, defs: &Defs) -> Option<Value> {
    // the shallow mutations of `gen_invalid_instance` (no recursion into the deep generator)
    let saved = rng.clone();
    let _ = saved;
    gen_invalid_instance_inner(rng, schema, defs)
}

/// An instance that is NOT valid for `schema`, by one targeted mutation.
pub fn gen_invalid_instance(rng: &mut Rng, schema: &Value, defs: &Defs) -> Option<Value> {
    // half of the time the invalid part sits INSIDE a container: one element /
    // member / slot of an otherwise valid value is replaced by an invalid one
    if rng.chance(1, 2) {
        if let Some(v) = gen_deep_invalid(rng, schema, defs, 0) {
            let mut stripped = schema.clone();
            if let Some(o) = stripped.as_object_mut() {
                o.remove("default");
            }
            if model::validate(&stripped, &v, defs, 0) == Some(false) {
                return Some(v);
            }
        }
    }
    gen_invalid_instance_inner(rng, schema, defs)
}

fn gen_invalid_instance_inner(rng: &mut Rng, schema: &Value, defs: &Defs) -> Option<Value> {
    // a fixed-size array: the empty list (the implicit default of a growable list)
    // is a wrong length here
    {
        let s = deref_schema(schema, defs, 0);
        let fixed = s.get("type") == Some(&json!("array")) && s.get("minItems").is_some() && s.get("minItems") == s.get("maxItems") && s.get("minItems").and_then(|m| m.as_u64()).unwrap_or(0) >= 1;
        if fixed && rng.chance(1, 3) {
            return Some(json!([]));
        }
    }
    let valid = gen_instance(rng, schema, defs, 0)?;
    let candidates: Vec<Value> = match &valid {
        Value::Bool(_) => vec![json!("yes"), json!(1), json!(null)],
        Value::Number(_) => vec![json!("7"), json!(true), json!(-1), json!(70000), json!(300), json!(null)],
        Value::String(_) => vec![json!(5), json!(false), json!("a-value-that-is-much-too-long-for-it"), json!("nonmember"), json!(null)],
        Value::Array(a) => {
            let mut v = vec![json!("nope"), json!({}), json!(null), json!([])];
            let mut longer = a.clone();
            longer.push(json!(null));
            v.push(Value::Array(longer));
            if !a.is_empty() {
                let mut dup = a.clone();
                dup.push(a[0].clone());
                v.push(Value::Array(dup));
                v.push(Value::Array(a[1..].to_vec()));
            }
            v
        }
        Value::Object(m) => {
            let mut v = vec![json!([]), json!("obj"), json!(null)];
            // one member too many (invalid for closed objects, for externally
            // tagged variants, ...)
            let mut more = m.clone();
            more.insert("zzExtra".into(), json!(true));
            v.push(Value::Object(more));
            // the union of two alternatives of a oneOf/anyOf
            for _ in 0..3 {
                if let Some(Value::Object(other)) = gen_instance(rng, schema, defs, 0) {
                    if other.keys().any(|k| !m.contains_key(k)) {
                        let mut both = m.clone();
                        for (k, x) in other {
                            both.entry(k).or_insert(x);
                        }
                        v.push(Value::Object(both));
                        break;
                    }
                }
            }
            if let Some(k) = m.keys().next() {
                let mut less = m.clone();
                less.remove(k);
                v.push(Value::Object(less));
                let mut wrong = m.clone();
                wrong.insert(k.clone(), json!([[["deep"]]]));
                v.push(Value::Object(wrong));
            }
            v
        }
        Value::Null => vec![json!(0), json!("null")],
    };
    let mut idx: Vec<usize> = (0..candidates.len()).collect();
    rng.shuffle(&mut idx);
    for i in idx {
        let mut stripped = schema.clone();
        if let Some(o) = stripped.as_object_mut() {
            o.remove("default");
        }
        if model::validate(&stripped, &candidates[i], defs, 0) == Some(false) {
            return Some(candidates[i].clone());
        }
    }
    None
}

#[derive(Debug, Clone)]
pub struct Component {
    pub prefix: String,
    /// sorted by name
    pub defs: Vec<(String, Value)>,
}

fn gen_component(rng: &mut Rng, sw: &Swarm, index: usize) -> Component {
    let prefix = format!("K{}", (b'a' + index as u8) as char);
    let n = rng.range(1, sw.max_defs);
    let mut words: Vec<&str> = WORDS.to_vec();
    rng.shuffle(&mut words);
    words.truncate(n);
    // the definition KEYS of a component follow one spelling; the generated type
    // names are their Pascal-case form in every case
    let style = *rng.pick(&[0u8, 0, 0, 0, 0, 0, 1, 1, 2, 3]);
    let names: Vec<String> = words
        .iter()
        .map(|w| match style {
            1 => format!("{}_{}", prefix.to_lowercase(), w.to_lowercase()),
            2 => format!("{}-{}", prefix.to_lowercase(), w.to_lowercase()),
            3 => format!("{}{w}", prefix.to_lowercase()),
            _ => format!("{prefix}{w}"),
        })
        .collect();
    let mut defs: BTreeMap<String, Value> = BTreeMap::new();
    let mut cx = Ctx {
        sw,
        targets: Vec::new(),
        ref_weight: 3,
        titles: 0,
        prefix: prefix.clone(),
    };
    // Build in order; definition i may reference earlier ones (forward edges
    // only => acyclic) or, when `cycles` allows, any definition including
    // itself (back edges => possible cycles).
    for (i, name) in names.iter().enumerate() {
        cx.targets = match sw.cycles {
            0 => names[..i].to_vec(),
            1 => {
                if rng.chance(1, 2) {
                    names[..=i].to_vec()
                } else {
                    names[..i].to_vec()
                }
            }
            _ => names.clone(),
        };
        cx.ref_weight = match sw.cycles {
            0 => 3,
            1 => 4,
            _ => 5,
        };
        let d = gen_definition(rng, &mut cx);
        defs.insert(name.clone(), d);
    }
    // an outer object schema that constrains a oneOf of references, one of which
    // cannot be an object: that alternative is unsatisfiable and typify drops it
    // (what is left is an enum over the struct alternatives). Always present in
    // H5 runs: merging references is where conversion state could outlive a call.
    if sw.defaults == 0 && sw.cycles == 0 && (sw.relation == Some("H5") || rng.chance(1, 6)) {
        let spell = |w: &str| -> String {
            match names.first().map(|n| n.as_str()) {
                Some(n) if n.contains('_') => format!("{}_{}", prefix.to_lowercase(), w.to_lowercase()),
                Some(n) if n.contains('-') => format!("{}-{}", prefix.to_lowercase(), w.to_lowercase()),
                _ => format!("{prefix}{w}"),
            }
        };
        let (a, b, c, pick) = (spell("Picka"), spell("Pickb"), spell("Picktag"), spell("Pick"));
        if [&a, &b, &c, &pick].iter().all(|n| !defs.contains_key(*n)) {
            defs.insert(a.clone(), json!({"type": "object", "properties": {"name": {"type": "string"}, "lives": {"type": "integer"}}, "required": ["name", "lives"]}));
            defs.insert(b.clone(), json!({"type": "object", "properties": {"name": {"type": "string"}, "breed": {"type": "string"}}, "required": ["name", "breed"]}));
            defs.insert(c.clone(), json!({"type": "string"}));
            defs.insert(pick, json!({"type": "object", "properties": {"name": {"type": "string"}}, "oneOf": [r(&a), r(&b), r(&c)]}));
        }
    }
    // a bare-reference alternative of an untagged enum stays only when it names a
    // struct: next to `string` and `integer` that keeps the alternatives mutually
    // exclusive (an overlapping anyOf is a different construct for typify: a struct
    // of flattened options)
    let snapshot: Defs = defs.clone();
    for (_name, d) in defs.iter_mut() {
        if let Some(Value::Array(alts)) = d.get_mut("anyOf") {
            // (not the nullable wrapper `anyOf [ref, null]`: that is an Option, no enum)
            if alts.len() == 2 && alts.iter().any(|a| a.get("type") == Some(&json!("null"))) {
                continue;
            }
            for alt in alts.iter_mut() {
                if let Some(Value::String(r)) = alt.get("$ref") {
                    let target = r.strip_prefix("#/definitions/").and_then(|n| snapshot.get(n));
                    let is_struct = target.map(|t| t.get("type") == Some(&json!("object")) && t.get("properties").is_some()).unwrap_or(false);
                    if !is_struct {
                        *alt = json!({"type": "boolean"});
                    }
                }
            }
        }
    }
    // enums are rarely the type of a property by chance; when defaults are in play
    // every second enum definition gets a struct that holds it (directly, optionally
    // nullable, and in a list), so that enum-typed defaults of every tagging occur
    if sw.defaults > 0 {
        let enums: Vec<String> = defs.iter().filter(|(_, d)| d.get("oneOf").is_some() || d.get("anyOf").is_some() || (d.get("enum").is_some() && d.get("type") == Some(&json!("string")))).map(|(n, _)| n.clone()).collect();
        for e in enums {
            if !rng.chance(1, 2) {
                continue;
            }
            let holder = if e.contains('_') { format!("{e}_holder") } else if e.contains('-') { format!("{e}-holder") } else { format!("{e}Holder") };
            if defs.contains_key(&holder) {
                continue;
            }
            let mut props = Map::new();
            props.insert("one".into(), r(&e));
            if sw.nullable && rng.chance(1, 2) {
                props.insert("maybe".into(), json!({"anyOf": [r(&e), {"type": "null"}]}));
            }
            if rng.chance(1, 2) {
                props.insert("many".into(), json!({"type": "array", "items": r(&e)}));
            }
            defs.insert(holder, json!({"type": "object", "properties": props}));
        }
    }
    // second pass: defaults
    if sw.defaults > 0 {
        let defs_model: Defs = defs.clone();
        for (_name, d) in defs.iter_mut() {
            add_defaults(rng, sw, d, &defs_model, true);
        }
    }
    // a string that must NOT be one of some values (a newtype with a deny list)
    // and a definition that merely aliases it
    if sw.defaults == 0 && rng.chance(1, 6) {
        let spell = |w: &str| -> String {
            match names.first().map(|n| n.as_str()) {
                Some(n) if n.contains('_') => format!("{}_{}", prefix.to_lowercase(), w.to_lowercase()),
                Some(n) if n.contains('-') => format!("{}-{}", prefix.to_lowercase(), w.to_lowercase()),
                _ => format!("{prefix}{w}"),
            }
        };
        let deny = spell("Deny");
        let alias = spell("Denyalias");
        if !defs.contains_key(&deny) && !defs.contains_key(&alias) {
            defs.insert(deny.clone(), json!({"type": "string", "not": {"enum": ["forbidden", "nope"]}}));
            defs.insert(alias, r(&deny));
        }
    }
    // a named alias of a nullable type and a struct with an optional member of
    // that type; the struct sorts before the alias in one half of the cases
    if sw.nullable && rng.chance(1, 6) {
        let spell = |w: &str| -> String {
            match names.first().map(|n| n.as_str()) {
                Some(n) if n.contains('_') => format!("{}_{}", prefix.to_lowercase(), w.to_lowercase()),
                Some(n) if n.contains('-') => format!("{}-{}", prefix.to_lowercase(), w.to_lowercase()),
                _ => format!("{prefix}{w}"),
            }
        };
        let alias = spell("Maybe");
        let user = if rng.chance(1, 2) { spell("Auser") } else { spell("Zuser") };
        if !defs.contains_key(&alias) && !defs.contains_key(&user) {
            let a = match rng.below(3) {
                0 => json!({"anyOf": [{"type": "string"}, {"type": "null"}]}),
                1 => json!({"type": ["integer", "null"], "format": "int32"}),
                _ => json!({"type": ["string", "null"]}),
            };
            defs.insert(alias.clone(), a);
            defs.insert(user, json!({"type": "object", "properties": {"nick": r(&alias), "id": {"type": "integer"}}, "required": ["id"]}));
        }
    }
    // a definition that carries the very name typify generates for an inline child
    // of another definition (`Foo` + inline object property `bar`, and `FooBar`)
    if sw.awkward && sw.defaults == 0 && rng.chance(1, 8) {
        let mut found: Option<String> = None;
        for (pn, ps) in defs.iter() {
            if let Some(props) = ps.get("properties").and_then(|p| p.as_object()) {
                for (prop, sch) in props {
                    let simple = prop.chars().all(|c| c.is_ascii_lowercase());
                    if simple && sch.get("title").is_none() && sch.get("type") == Some(&json!("object")) && sch.get("properties").is_some() {
                        found = Some(format!("{}_{}", pascal(pn), prop));
                    }
                }
            }
        }
        if let Some(child) = found {
            let key = pascal(&child);
            if !defs.keys().any(|k| pascal(k) == key) {
                defs.insert(key, json!({"type": "object", "properties": {"y": {"type": "string"}}}));
            }
        }
    }
    // a wrapper type with a default of its own, and a property of that type whose
    // default OVERRIDES it - sometimes with the zero value of the wrapped type
    // (the property's default wins; the wrapper's own default is for other uses)
    if sw.dense_defaults && rng.chance(1, 3) {
        let spell = |w: &str| -> String {
            match names.first().map(|n| n.as_str()) {
                Some(n) if n.contains('_') => format!("{}_{}", prefix.to_lowercase(), w.to_lowercase()),
                Some(n) if n.contains('-') => format!("{}-{}", prefix.to_lowercase(), w.to_lowercase()),
                _ => format!("{prefix}{w}"),
            }
        };
        // the holder sorts after the wrapper in half of the cases (reference already
        // resolved when the holder is converted) and before it in the other half
        let wrapper = spell("Label");
        let holder = if rng.chance(1, 2) { spell("Mholder") } else { spell("Holder") };
        if !defs.contains_key(&wrapper) && !defs.contains_key(&holder) {
            let own = *rng.pick(&["abc", "zz", "q"]);
            let over = *rng.pick(&["", "", "xy", "abc"]);
            defs.insert(wrapper.clone(), json!({"type": "string", "maxLength": 5, "default": own}));
            let prop = if rng.chance(1, 2) {
                json!({"$ref": format!("#/definitions/{wrapper}"), "default": over})
            } else {
                json!({"allOf": [{"$ref": format!("#/definitions/{wrapper}")}], "default": over})
            };
            defs.insert(holder, json!({"type": "object", "properties": {"label": prop, "count": {"type": "integer"}}}));
        }
    }
    Component {
        prefix,
        defs: defs.into_iter().collect(),
    }
}

/// A component whose definitions refer to the definitions of an already
/// delivered component `base` (and to each other).
fn gen_extension(rng: &mut Rng, sw: &Swarm, base: &Component, index: usize) -> Component {
    let prefix = format!("K{}", (b'a' + (index as u8 % 20)) as char).replace("Ka", "Kx");
    let prefix = if prefix.len() == 2 { format!("X{}", &prefix[1..]) } else { prefix };
    let n = rng.range(1, 3);
    let mut words: Vec<&str> = WORDS.to_vec();
    rng.shuffle(&mut words);
    words.truncate(n);
    let names: Vec<String> = words.iter().map(|w| format!("{prefix}{w}")).collect();
    let base_names: Vec<String> = base.defs.iter().map(|d| d.0.clone()).collect();
    let mut defs: BTreeMap<String, Value> = BTreeMap::new();
    let mut cx = Ctx { sw, targets: Vec::new(), ref_weight: 6, titles: 500, prefix: prefix.clone() };
    for (i, name) in names.iter().enumerate() {
        let mut t = base_names.clone();
        t.extend(names[..i].iter().cloned());
        if sw.cycles > 0 {
            t.push(name.clone());
        }
        cx.targets = t;
        let d = gen_definition(rng, &mut cx);
        defs.insert(name.clone(), d);
    }
    Component { prefix, defs: defs.into_iter().collect() }
}

/// Attach `default` annotations to optional properties (and sometimes to the
/// definition itself). Valid or invalid per swarm setting; the model decides
/// validity independently at execution time.
fn add_defaults(rng: &mut Rng, sw: &Swarm, schema: &mut Value, defs: &Defs, top: bool) {
    let Some(o) = schema.as_object_mut() else { return };
    let req: BTreeSet<String> = o
        .get("required")
        .and_then(|x| x.as_array())
        .map(|a| a.iter().filter_map(|v| v.as_str().map(String::from)).collect())
        .unwrap_or_default();
    if let Some(Value::Object(props)) = o.get_mut("properties") {
        for (k, p) in props.iter_mut() {
            if k == "type" || k == "t" || k == "c" {
                continue;
            }
            // enum-typed properties are rarer than scalar ones and have many more ways
            // of being wrong: they get defaults (and invalid ones) more often
            let is_enum = {
                let d = deref_schema(p, defs, 0);
                d.get("oneOf").is_some() || d.get("anyOf").is_some()
            };
            if !req.contains(k) && if sw.dense_defaults || is_enum { rng.chance(4, 5) } else { rng.chance(2, 5) } {
                let invalid = sw.defaults == 2 && if is_enum { rng.chance(1, 2) } else { rng.chance(1, 4) };
                let v = if invalid {
                    gen_invalid_instance(rng, p, defs)
                } else {
                    gen_instance(rng, p, defs, 0)
                };
                if let (Some(v), Some(po)) = (v, p.as_object_mut()) {
                    if let Some(r) = po.get("$ref").cloned() {
                        // a default next to a reference is written the way schemars
                        // writes it: allOf [ $ref ] with the default as a sibling
                        if rng.chance(1, 2) {
                            po.remove("$ref");
                            po.insert("allOf".into(), json!([{"$ref": r}]));
                            po.insert("default".into(), v);
                        }
                    } else {
                        po.insert("default".into(), v);
                    }
                }
            } else if p.get("type") == Some(&json!("object")) {
                add_defaults(rng, sw, p, defs, false);
            }
        }
    }
    if top && if sw.dense_defaults { rng.chance(1, 2) } else { rng.chance(1, 6) } && !o.contains_key("$ref") && !o.contains_key("oneOf") && !o.contains_key("anyOf") {
        let me = Value::Object(o.clone());
        let invalid = sw.defaults == 2 && rng.chance(1, 4);
        let v = if invalid {
            gen_invalid_instance(rng, &me, defs)
        } else {
            gen_instance(rng, &me, defs, 0)
        };
        if let Some(v) = v {
            o.insert("default".into(), v);
        }
    }
}

/// The type name typify derives from a definition key of the generator
/// (`ka_alpha`, `ka-alpha`, `kaAlpha`, `KaAlpha` -> `KaAlpha`).
pub fn pascal(key: &str) -> String {
    let mut out = String::new();
    let mut up = true;
    for c in key.chars() {
        if c == '_' || c == '-' {
            up = true;
        } else if up {
            out.extend(c.to_uppercase());
            up = false;
        } else {
            out.push(c);
        }
    }
    out
}

fn gen_settings(rng: &mut Rng, sw: &Swarm, comps: &[Component]) -> SettingsDesc {
    let mut s = SettingsDesc::default();
    if !sw.settings_variety {
        s.struct_builder = rng.chance(1, 2);
        return s;
    }
    s.struct_builder = rng.chance(1, 2);
    if rng.chance(1, 3) {
        s.type_mod = Some("types".into());
    }
    if rng.chance(1, 3) {
        s.derives.push("PartialEq".into());
    }
    s.map_type = match rng.below(3) {
        0 => None,
        1 => Some("::std::collections::BTreeMap".into()),
        _ => Some("::std::collections::HashMap".into()),
    };
    if rng.chance(1, 6) {
        // patch one generated struct/enum definition: rename and/or derive
        let all: Vec<&(String, Value)> = comps.iter().flat_map(|c| c.defs.iter()).collect();
        if !all.is_empty() {
            let (key, _) = rng.pick(&all);
            let name = &pascal(key);
            s.patches.push(PatchDesc {
                name: name.clone(),
                rename: match rng.below(6) {
                    0 | 1 => Some(format!("{name}Renamed")),
                    // spellings that are valid identifiers but not what a Pascal-case
                    // normaliser would produce
                    2 => Some(format!("HTTP{name}")),
                    3 => Some(format!("{name}_V2")),
                    _ => None,
                },
                // a per-type derive is the caller's promise that the members
                // support it; only made when every type gets PartialEq anyway
                derives: if rng.chance(1, 2) && s.derives.iter().any(|d| d == "PartialEq") {
                    vec!["PartialEq".into()]
                } else {
                    vec![]
                },
            });
        }
    }
    // (more often when some enum names a definition as a bare alternative)
    let has_bare_alternative = comps.iter().flat_map(|c| c.defs.iter()).any(|(_, d)| {
        d.get("anyOf").and_then(|a| a.as_array()).map(|a| a.iter().any(|x| x.get("$ref").is_some())).unwrap_or(false)
    });
    if sw.defaults == 0 && sw.cycles == 0 && !sw.faults && if has_bare_alternative { rng.chance(1, 2) } else { rng.chance(1, 5) } {
        // replace one definition by an existing type (its uses name that type);
        // not in fault runs: a replaced definition is never converted, so a poison
        // placed inside it would not fire
        let all: Vec<&(String, Value)> = comps.iter().flat_map(|c| c.defs.iter()).collect();
        if !all.is_empty() {
            // definitions that some anyOf/oneOf names as a bare alternative are
            // preferred: the enclosing enum has to cope with an opaque member
            fn alternatives(v: &Value, out: &mut Vec<String>) {
                match v {
                    Value::Object(o) => {
                        for key in ["anyOf", "oneOf"] {
                            if let Some(Value::Array(subs)) = o.get(key) {
                                for sub in subs {
                                    if let Some(Value::String(r)) = sub.get("$ref") {
                                        if let Some(n) = r.strip_prefix("#/definitions/") {
                                            out.push(n.to_string());
                                        }
                                    }
                                }
                            }
                        }
                        for x in o.values() {
                            alternatives(x, out);
                        }
                    }
                    Value::Array(a) => a.iter().for_each(|x| alternatives(x, out)),
                    _ => {}
                }
            }
            let mut alts = Vec::new();
            for (_, d) in &all {
                alternatives(d, &mut alts);
            }
            let key: String = if !alts.is_empty() && rng.chance(2, 3) { rng.pick(&alts).clone() } else { rng.pick(&all).0.clone() };
            let name = pascal(&key);
            if !s.patches.iter().any(|p| p.name == name) {
                s.replaces.push(ReplaceDesc { name, with: "::serde_json::Value".into() });
            }
        }
    }
    if sw.defaults == 0 && sw.formats && rng.chance(1, 5) {
        // convert a schema (matched exactly as written) to a named type
        let pool: &[(Value, &str)] = &[
            (json!({"type": "string", "format": "uuid"}), "::std::string::String"),
            (json!({"type": "number", "format": "double"}), "f32"),
            (json!({"type": "string", "format": "ipv4"}), "::std::net::IpAddr"),
            (json!({"type": "string", "format": "date"}), "::std::string::String"),
        ];
        for _ in 0..rng.range(1, 2) {
            let (schema, ty) = rng.pick(pool).clone();
            if !s.conversions.iter().any(|c| c.schema == schema) {
                s.conversions.push(ConversionDesc { schema: schema.clone(), type_name: ty.to_string() });
                if rng.chance(1, 2) {
                    // the same schema again with another type: the first one is honoured
                    s.conversions.push(ConversionDesc { schema, type_name: "::std::boxed::Box<str>".to_string() });
                }
            }
        }
    }
    s
}

fn root_doc(rng: &mut Rng, comps: &[&Component], titled: Option<String>) -> Value {
    let mut defs = Map::new();
    for c in comps {
        for (n, d) in &c.defs {
            defs.insert(n.clone(), d.clone());
        }
    }
    let mut doc = json!({
        "$schema": "http://json-schema.org/draft-07/schema#",
        "definitions": defs,
    });
    if let Some(title) = titled {
        doc["title"] = json!(title);
        doc["type"] = json!("object");
        let mut props = Map::new();
        let all: Vec<&String> = comps.iter().flat_map(|c| c.defs.iter().map(|d| &d.0)).collect();
        for (i, p) in ["first", "second"].iter().enumerate() {
            if i == 0 || rng.chance(1, 2) {
                let t = rng.pick(&all);
                props.insert(
                    p.to_string(),
                    if rng.chance(1, 2) {
                        r(t)
                    } else {
                        json!({"type": "array", "items": r(t)})
                    },
                );
            }
        }
        // sometimes the root refers to itself (`#`): a recursive root type
        if rng.chance(1, 6) {
            props.insert(
                "again".to_string(),
                if rng.chance(1, 2) { json!({"$ref": "#"}) } else { json!({"type": "array", "items": {"$ref": "#"}}) },
            );
        }
        doc["properties"] = Value::Object(props);
    }
    doc
}

const POISONS: &[&str] = &[
    "bad-default",
    "int-default-range",
    "bad-pattern",
    "array-contains",
    "non-string-enum-value",
    "dangling-ref",
    "external-ref",
    "unhandled-not",
    "variant-collision",
];

fn poison_schema(kind: &str) -> Value {
    match kind {
        "bad-default" => json!({"type": "array", "items": {"type": "string"}, "default": "nope"}),
        "int-default-range" => json!({"type": "integer", "format": "uint8", "default": 300}),
        "bad-pattern" => json!({"type": "string", "pattern": "(unclosed["}),
        "array-contains" => json!({"type": "array", "contains": {"type": "string"}}),
        "non-string-enum-value" => json!({"type": "string", "enum": ["a", 5]}),
        "dangling-ref" => json!({"$ref": "#/definitions/NowhereToBeFound"}),
        "external-ref" => json!({"$ref": "other.json#/definitions/Elsewhere"}),
        "unhandled-not" => json!({"not": {"type": "object", "properties": {"a": {"type": "string"}}}}),
        // serde-derivable (two renamed variants), but typify panics: no unique variant names
        "variant-collision" => json!({"type": "string", "enum": ["foo_bar", "plain", "foo-bar"]}),
        _ => json!(false),
    }
}

/// Put the poison into an add op: as a property of a fresh struct definition
/// whose name sorts first / in the middle / last in the batch, or nested in an
/// existing struct definition.
fn poison_op(rng: &mut Rng, op: &mut Op, kind: &str) {
    let p = poison_schema(kind);
    let wrap = |p: Value, depth: usize| -> Value {
        let mut inner = p;
        for d in 0..depth {
            inner = json!({"type": "object", "properties": {format!("pz{d}"): inner}});
        }
        inner
    };
    match op {
        Op::AddRefTypes { defs, poison } => {
            *poison = Some(kind.to_string());
            let existing: Vec<usize> = defs
                .iter()
                .enumerate()
                .filter(|(_, (_, s))| s.get("type") == Some(&json!("object")) && s.get("properties").is_some())
                .map(|(i, _)| i)
                .collect();
            if !existing.is_empty() && rng.chance(1, 2) {
                let i = *rng.pick(&existing);
                let depth = rng.below(2);
                defs[i].1["properties"]["pz"] = wrap(p, depth);
            } else {
                let pos = rng.below(defs.len() + 1);
                let depth = rng.range(1, 2);
                defs.insert(pos, (format!("Pz{}", *rng.pick(&["Aaa", "Mmm", "Zzz"])), wrap(p, depth)));
            }
        }
        Op::AddRootSchema { doc, poison } => {
            *poison = Some(kind.to_string());
            let name = format!("Pz{}", *rng.pick(&["Aaa", "Mmm", "Zzz"]));
            let depth = rng.range(1, 2);
            if doc.get("definitions").is_none() {
                doc["definitions"] = json!({});
            }
            // sort position is decided by the name here (BTreeMap)
            let name = match rng.below(3) {
                0 => format!("A{name}"),
                1 => format!("Kz{name}"),
                _ => format!("Z{name}"),
            };
            doc["definitions"][name] = wrap(p, depth);
        }
        Op::AddType { schema, hint, poison } => {
            *poison = Some(kind.to_string());
            *schema = wrap(p, rng.range(0, 2));
            if hint.is_none() {
                *hint = Some("PzHint".into());
            }
        }
        _ => {}
    }
}

fn gen_addtype(rng: &mut Rng, sw: &Swarm, added: &[String], defs_model: &Defs, hints_used: &mut Vec<String>, counter: &mut usize) -> Op {
    let mut op = gen_addtype_plain(rng, sw, added, hints_used, counter);
    if sw.defaults > 0 {
        if let Op::AddType { schema, .. } = &mut op {
            if schema.get("type") == Some(&json!("object")) {
                // property defaults and (sometimes) a type-level default, valid or
                // invalid per swarm setting; the property may be typed by a
                // definition delivered by an earlier call
                add_defaults(rng, sw, schema, defs_model, true);
            }
        }
    }
    op
}

thread_local! {
    /// titled schemas delivered through add_type_with_name so far in the run being generated
    static TITLED_POOL: std::cell::RefCell<Vec<Value>> = const { std::cell::RefCell::new(Vec::new()) };
}

fn gen_addtype_plain(rng: &mut Rng, sw: &Swarm, added: &[String], hints_used: &mut Vec<String>, counter: &mut usize) -> Op {
    *counter += 1;
    let n = *counter;
    if sw.inline && sw.defaults == 0 && rng.chance(1, 8) {
        // a schema that carries its own title (the title names the type, whatever
        // the hint says) with a child that needs a generated name; later delivered
        // again under another hint or none
        let pooled: Vec<Value> = TITLED_POOL.with(|p| p.borrow().clone());
        if !pooled.is_empty() && rng.chance(1, 2) {
            let schema = rng.pick(&pooled).clone();
            let hint = if rng.chance(1, 3) { None } else { Some(format!("Other{n}")) };
            return Op::AddType { schema, hint, poison: None };
        }
        let mut cx = Ctx { sw, targets: added.to_vec(), ref_weight: 2, titles: 100 * n, prefix: format!("Q{n}") };
        let mut o = gen_object(rng, &mut cx, 2, 1, 2);
        o["properties"]["size"] = json!({"type": "string", "enum": ["small", "large"]});
        if rng.chance(1, 2) {
            o["properties"]["box"] = json!({"type": "object", "properties": {"w": {"type": "integer"}}, "required": ["w"]});
        }
        o["title"] = json!(format!("Q{n}Titled"));
        TITLED_POOL.with(|p| p.borrow_mut().push(o.clone()));
        return Op::AddType { schema: o, hint: Some(format!("Hint{n}")), poison: None };
    }
    let mut cx = Ctx {
        sw,
        targets: added.to_vec(),
        ref_weight: 3,
        titles: 100 * n,
        prefix: format!("Q{n}"),
    };
    match rng.below(6) {
        0 | 1 if !added.is_empty() => Op::AddType {
            schema: r(rng.pick(added).as_str()),
            hint: None,
            poison: None,
        },
        2 => {
            // scalar / container, no name needed
            let t = match rng.below(3) {
                0 => gen_scalar(rng, sw),
                1 => json!({"type": "array", "items": gen_scalar(rng, sw)}),
                _ => json!({"type": ["string", "null"]}),
            };
            Op::AddType {
                schema: t,
                hint: None,
                poison: None,
            }
        }
        3 if !hints_used.is_empty() => {
            // same hint as an earlier call, different schema
            let h = rng.pick(hints_used).clone();
            Op::AddType {
                schema: gen_object(rng, &mut cx, 1, 1, 2),
                hint: Some(h),
                poison: None,
            }
        }
        4 if !added.is_empty() && rng.chance(1, 2) => {
            // hint that coincides with an existing definition
            let h = rng.pick(added).clone();
            Op::AddType {
                schema: gen_object(rng, &mut cx, 1, 1, 2),
                hint: Some(h),
                poison: None,
            }
        }
        4 | 5 if (!added.is_empty() || !hints_used.is_empty()) && rng.chance(1, 3) => {
            // a hint that names an existing type, on a schema that does NOT convert to
            // a named type (a list of inline objects, a scalar, a list of scalars): the
            // hint only names the children
            let h = if !hints_used.is_empty() && (added.is_empty() || rng.chance(1, 2)) {
                rng.pick(hints_used).clone()
            } else {
                pascal(rng.pick(added).as_str())
            };
            let schema = match rng.below(3) {
                0 => json!({"type": "array", "items": gen_object(rng, &mut cx, 2, 1, 2)}),
                1 => gen_scalar(rng, sw),
                _ => json!({"type": "array", "items": gen_scalar(rng, sw)}),
            };
            Op::AddType { schema, hint: Some(h), poison: None }
        }
        _ => {
            let h = format!("Hint{n}");
            hints_used.push(h.clone());
            let schema = if sw.enums && rng.chance(1, 4) {
                json!({"type": "string", "enum": ["on", "off", "auto"]})
            } else {
                gen_object(rng, &mut cx, 1, 1, 3)
            };
            Op::AddType {
                schema,
                hint: Some(h),
                poison: None,
            }
        }
    }
}

pub fn mentions_definition(op: &Op, names: &BTreeSet<String>) -> bool {
    match op {
        Op::AddType { schema, hint, .. } => {
            if let Some(h) = hint {
                if names.contains(h) {
                    return true;
                }
            }
            let text = schema.to_string();
            text.contains("#/definitions/")
        }
        _ => false,
    }
}

fn def_names_of(op: &Op) -> Vec<String> {
    match op {
        Op::AddRefTypes { defs, .. } => defs.iter().map(|d| d.0.clone()).collect(),
        Op::AddRootSchema { doc, .. } => doc
            .get("definitions")
            .and_then(|d| d.as_object())
            .map(|d| d.keys().cloned().collect())
            .unwrap_or_default(),
        _ => Vec::new(),
    }
}

/// Build the variant history for a relation from the base ops.
pub fn make_variant(rng: &mut Rng, relation: &str, base: &[Op]) -> Vec<Op> {
    let all_names: BTreeSet<String> = base.iter().flat_map(def_names_of).collect();
    // add_type calls that share a name hint are not independent of each other
    // (the first one defines the name); they keep their relative order
    let mut hint_count: BTreeMap<String, usize> = BTreeMap::new();
    for op in base {
        if let Op::AddType { hint: Some(h), .. } = op {
            *hint_count.entry(h.clone()).or_insert(0) += 1;
        }
    }
    let mut independent: Vec<Op> = Vec::new();
    let mut dependent: Vec<Op> = Vec::new();
    for op in base {
        match op {
            Op::AddRefTypes { .. } | Op::AddRootSchema { .. } => independent.push(op.clone()),
            Op::AddType { .. } => {
                let shared_hint = matches!(op, Op::AddType { hint: Some(h), .. } if hint_count[h] > 1);
                if shared_hint || mentions_definition(op, &all_names) {
                    dependent.push(op.clone());
                } else {
                    independent.push(op.clone());
                }
            }
            _ => {}
        }
    }
    let mut out: Vec<Op> = match relation {
        "H1" => {
            let mut v = independent.clone();
            rng.shuffle(&mut v);
            v
        }
        "H2" => {
            if rng.chance(1, 2) {
                // merge all AddRefTypes batches into the first one
                let mut merged: Vec<(String, Value)> = Vec::new();
                let mut v = Vec::new();
                let mut slot: Option<usize> = None;
                for op in &independent {
                    if let Op::AddRefTypes { defs, .. } = op {
                        merged.extend(defs.iter().cloned());
                        if slot.is_none() {
                            slot = Some(v.len());
                            v.push(op.clone());
                        }
                    } else {
                        v.push(op.clone());
                    }
                }
                if let Some(i) = slot {
                    v[i] = Op::AddRefTypes {
                        defs: merged,
                        poison: None,
                    };
                }
                v
            } else {
                // split every batch into one call per component (name prefix)
                let mut v = Vec::new();
                for op in &independent {
                    if let Op::AddRefTypes { defs, .. } = op {
                        let mut groups: Vec<(String, Vec<(String, Value)>)> = Vec::new();
                        for (n, s) in defs {
                            let p: String = n.chars().take(2).collect::<String>().to_lowercase();
                            if let Some(g) = groups.iter_mut().find(|g| g.0 == p) {
                                g.1.push((n.clone(), s.clone()));
                            } else {
                                groups.push((p, vec![(n.clone(), s.clone())]));
                            }
                        }
                        for (_, g) in groups {
                            v.push(Op::AddRefTypes {
                                defs: g,
                                poison: None,
                            });
                        }
                    } else {
                        v.push(op.clone());
                    }
                }
                v
            }
        }
        "H3" => independent
            .iter()
            .map(|op| match op {
                Op::AddRefTypes { defs, .. } => {
                    let mut m = Map::new();
                    for (n, s) in defs {
                        m.insert(n.clone(), s.clone());
                    }
                    Op::AddRootSchema {
                        doc: json!({"$schema": "http://json-schema.org/draft-07/schema#", "definitions": m}),
                        poison: None,
                    }
                }
                Op::AddRootSchema { doc, .. } if doc.get("title").is_none() => {
                    let defs: Vec<(String, Value)> = doc
                        .get("definitions")
                        .and_then(|d| d.as_object())
                        .map(|d| d.iter().map(|(k, v)| (k.clone(), v.clone())).collect())
                        .unwrap_or_default();
                    Op::AddRefTypes { defs, poison: None }
                }
                other => other.clone(),
            })
            .collect(),
        _ => {
            // H4: identical history
            return base.to_vec();
        }
    };
    out.extend(dependent);
    out.push(Op::Inspect);
    out.push(Op::Render);
    out
}

/// Expand a seed into a full run description.
pub fn generate(seed: u64, focus: Focus, faults: bool) -> RunDesc {
    TITLED_POOL.with(|p| p.borrow_mut().clear());
    match focus {
        Focus::Fixtures => return generate_fixture_run(seed, false, faults),
        Focus::FixturesBig => return generate_fixture_run(seed, true, faults),
        _ => {}
    }
    let mut rng = Rng::new(seed);
    let mut sw_rng = rng.fork();
    let mut set_rng = rng.fork();
    let hash_key = rng.next_u64();
    let decoy = if rng.chance(1, 4) { rng.range(1, 5) as u32 } else { 0 };
    let mut comp_rng = rng.fork();
    let mut hist_rng = rng.fork();
    let mut fault_rng = rng.fork();
    let mut var_rng = rng.fork();

    let sw = Swarm::draw(&mut sw_rng, focus, faults);
    let mut comps: Vec<Component> = (0..sw.n_components)
        .map(|i| gen_component(&mut comp_rng, &sw, i))
        .collect();
    // two struct definitions whose names differ in letter case only, delivered by
    // DIFFERENT calls (so that re-ordered histories assign their ids in either order)
    if comps.len() >= 2 && sw.awkward && comp_rng.chance(1, 3) {
        let first: Option<String> = comps[0]
            .defs
            .iter()
            .find(|(n, d)| d.get("type") == Some(&json!("object")) && d.get("properties").is_some() && !n.contains('_') && !n.contains('-') && n.chars().next().map(|c| c.is_ascii_uppercase()).unwrap_or(false))
            .map(|(n, _)| n.clone());
        if let Some(n) = first {
            let twin: String = n.chars().enumerate().map(|(i, c)| if i == 0 { c } else { c.to_ascii_lowercase() }).collect();
            let taken = comps.iter().any(|c| c.defs.iter().any(|(k, _)| *k == twin));
            if twin != n && !taken {
                comps[1].defs.push((twin, json!({"type": "object", "properties": {"twin": {"type": "boolean"}}})));
                comps[1].defs.sort_by(|a, b| a.0.cmp(&b.0));
            }
        }
    }
    let settings = gen_settings(&mut set_rng, &sw, &comps);

    // ----- history -----
    let rng = &mut hist_rng;
    let mut pool: Vec<&Component> = comps.iter().collect();
    rng.shuffle(&mut pool);
    let mut ops: Vec<Op> = Vec::new();
    let mut added: Vec<String> = Vec::new();
    let mut add_indices: Vec<usize> = Vec::new();
    let mut hints: Vec<String> = Vec::new();
    let mut defs_model: Defs = Defs::new();
    let mut counter = 0usize;
    let mut roots = 0usize;
    if sw.addtype && rng.chance(1, 4) {
        // a client may add free-standing types before any definitions
        ops.push(gen_addtype(rng, &sw, &added, &defs_model, &mut hints, &mut counter));
        add_indices.push(ops.len() - 1);
    }
    while !pool.is_empty() {
        let k = rng.range(1, std::cmp::min(3, pool.len()));
        let batch: Vec<&Component> = pool.drain(..k).collect();
        let op = if rng.chance(3, 5) {
            let mut defs: Vec<(String, Value)> = Vec::new();
            for c in &batch {
                let mut d = c.defs.clone();
                if sw.shuffle_within_component {
                    rng.shuffle(&mut d);
                }
                defs.extend(d);
            }
            Op::AddRefTypes { defs, poison: None }
        } else {
            let titled = if rng.chance(1, 2) {
                roots += 1;
                Some(format!("Rt{roots}Root"))
            } else {
                None
            };
            let is_titled = titled.is_some();
            let mut doc = root_doc(rng, &batch, titled);
            if is_titled && sw.defaults > 0 {
                let mut model = defs_model.clone();
                for c in &batch {
                    for (n, d) in &c.defs {
                        model.insert(n.clone(), d.clone());
                    }
                }
                add_defaults(rng, &sw, &mut doc, &model, true);
            }
            Op::AddRootSchema { doc, poison: None }
        };
        for c in &batch {
            added.extend(c.defs.iter().map(|d| d.0.clone()));
            for (n, d) in &c.defs {
                defs_model.insert(n.clone(), d.clone());
            }
        }
        ops.push(op);
        add_indices.push(ops.len() - 1);
        if rng.chance(2, 3) {
            ops.push(Op::Inspect);
        }
        if sw.addtype {
            let n = rng.below(3);
            for _ in 0..n {
                ops.push(gen_addtype(rng, &sw, &added, &defs_model, &mut hints, &mut counter));
                add_indices.push(ops.len() - 1);
            }
        }
        if sw.readd && rng.chance(1, 2) {
            let of = *rng.pick(&add_indices);
            ops.push(Op::ReAdd { of });
            if rng.chance(1, 2) {
                ops.push(Op::Inspect);
            }
        }
        if rng.chance(1, 4) {
            ops.push(Op::Render);
        }
        if ops.len() >= 14 {
            break;
        }
    }
    // ----- an overlapping delivery -----
    // A later call that carries definitions which were already added (unchanged)
    // TOGETHER with new definitions that refer to them: the collection is
    // self-contained as the API demands, the old definitions are recognised,
    // the new ones hang on to their existing ids (by value, optional, array ...).
    let mut overlap: Option<(Vec<(String, Value)>, Vec<(String, Value)>)> = None;
    if sw.relation.is_none() && !comps.is_empty() && rng.chance(1, 3) {
        let delivered: Vec<&Component> = comps.iter().filter(|c| c.defs.iter().all(|d| added.contains(&d.0))).collect();
        if !delivered.is_empty() {
            let base = *rng.pick(&delivered);
            let ext = gen_extension(rng, &sw, base, comps.len());
            let mut defs = base.defs.clone();
            defs.extend(ext.defs.clone());
            if rng.chance(1, 2) {
                ops.push(Op::AddRefTypes { defs, poison: None });
            } else {
                let both = Component { prefix: String::new(), defs };
                roots += 1;
                let title = if rng.chance(2, 3) { Some(format!("Rt{roots}Root")) } else { None };
                let doc = root_doc(rng, &[&both], title);
                ops.push(Op::AddRootSchema { doc, poison: None });
            }
            overlap = Some((base.defs.clone(), ext.defs.clone()));
            for (n, d) in &ext.defs {
                added.push(n.clone());
                defs_model.insert(n.clone(), d.clone());
            }
        }
    }
    let _ = &overlap;
    ops.push(Op::Inspect);
    ops.push(Op::Render);
    if focus == Focus::Compile && !faults && sw.awkward && sw.relation.is_none() && rng.chance(1, 12) {
        // last of all: what schemars emits for a serde-derivable enum with two
        // renamed variants that differ only in a separator; nothing follows it
        // (typify panics on it: known finding, see known_findings.json)
        ops.push(Op::AddType {
            schema: json!({"type": "string", "enum": ["foo_bar", "plain", "foo-bar"]}),
            hint: Some("Separators".into()),
            poison: None,
        });
    }

    // ----- faults -----
    if faults && fault_rng.chance(2, 3) {
        let candidates: Vec<usize> = ops
            .iter()
            .enumerate()
            .filter(|(_, o)| o.is_add())
            .map(|(i, _)| i)
            .collect();
        if !candidates.is_empty() {
            let i = *fault_rng.pick(&candidates);
            let kind = if focus == Focus::Defaults {
                // the faults C06 cares about are refusals caused by defaults
                *fault_rng.pick(&["bad-default", "int-default-range", "bad-default", "bad-pattern"])
            } else {
                *fault_rng.pick(POISONS)
            };
            let clean_copy = ops[i].clone();
            poison_op(&mut fault_rng, &mut ops[i], kind);
            // sometimes the batch that is going to fail also RE-DEFINES a name that
            // an earlier successful call established (with a different schema): a
            // failed call must not damage what earlier calls returned
            let earlier: Vec<String> = {
                let mut v: Vec<String> = Vec::new();
                for op in &ops[..i] {
                    v.extend(def_names_of(op));
                    if let Op::AddType { hint: Some(h), .. } = op {
                        v.push(h.clone());
                    }
                }
                v.sort();
                v.dedup();
                v
            };
            if !earlier.is_empty() && fault_rng.chance(1, 3) {
                let name = fault_rng.pick(&earlier).clone();
                let redefinition = json!({"type": "string", "enum": ["zz-redefined", "yy-redefined"]});
                match &mut ops[i] {
                    Op::AddRefTypes { defs, .. } => {
                        let at = fault_rng.below(defs.len() + 1);
                        defs.insert(at, (name, redefinition));
                    }
                    Op::AddRootSchema { doc, .. } => {
                        doc["definitions"][name] = redefinition;
                    }
                    _ => {}
                }
            }
            // the client's retry: the same call without the offending part,
            // somewhere later in the history (often right away)
            if fault_rng.chance(2, 3) && !matches!(clean_copy, Op::AddType { .. }) {
                let at = if fault_rng.chance(1, 2) { i + 1 } else { fault_rng.range(i + 1, ops.len()) };
                // indices of later ReAdd ops shift by one
                for op in ops.iter_mut() {
                    if let Op::ReAdd { of } = op {
                        if *of >= at {
                            *of += 1;
                        }
                    }
                }
                ops.insert(at, clean_copy);
            } else if fault_rng.chance(1, 2) {
                // or the client simply sends the failed call again, unchanged
                let at = fault_rng.range(i + 1, ops.len());
                for op in ops.iter_mut() {
                    if let Op::ReAdd { of } = op {
                        if *of >= at {
                            *of += 1;
                        }
                    }
                }
                ops.insert(at, Op::ReAdd { of: i });
            }
        }
    }

    // ----- relation -----
    let variant = sw.relation.map(|rel| Variant {
        relation: rel.to_string(),
        hash_key: if rel == "H5" { hash_key } else { var_rng.next_u64() },
        decoy: if var_rng.chance(1, 3) { var_rng.range(1, 4) as u32 } else { 0 },
        ops: {
            let mut vops = make_variant(&mut var_rng, rel, &ops);
            // without reference cycles (where the place of the Box depends on which
            // definition is met first) and without name-sharing shapes, the pairs of
            // ONE add_ref_types call are independent additions too: H1 permutes them
            if rel == "H1" && sw.cycles == 0 && !sw.awkward && !sw.inline && var_rng.chance(1, 2) {
                for op in vops.iter_mut() {
                    if let Op::AddRefTypes { defs, .. } = op {
                        var_rng.shuffle(defs);
                    }
                }
            }
            vops
        },
    });

    RunDesc {
        seed,
        hash_key,
        decoy,
        faults: if faults { "on".into() } else { "off".into() },
        settings,
        ops,
        variant,
        model_off: false,
    }
}

/// A whole generated root document (all components in one `definitions` map,
/// sometimes with a titled root) and the names of its definitions; used by
/// the process-level engines as a workload.
pub fn gen_document(seed: u64, with_defaults: bool) -> (Value, Vec<String>) {
    let mut rng = Rng::new(seed);
    let mut sw = Swarm::draw(&mut rng.fork(), Focus::Compile, false);
    sw.defaults = if with_defaults { 1 } else { 0 };
    sw.n_components = rng.range(1, 3);
    let mut crng = rng.fork();
    let comps: Vec<Component> = (0..sw.n_components).map(|i| gen_component(&mut crng, &sw, i)).collect();
    let refs: Vec<&Component> = comps.iter().collect();
    let titled = if rng.chance(1, 2) { Some("DocRoot".to_string()) } else { None };
    let doc = root_doc(&mut rng, &refs, titled);
    let names = comps.iter().flat_map(|c| c.defs.iter().map(|d| d.0.clone())).collect();
    (doc, names)
}


/// Repository fixture documents: (name, parsed JSON).
pub fn fixture_docs(big: bool) -> Vec<(String, Value)> {
    let mut paths: Vec<std::path::PathBuf> = Vec::new();
    if big {
        paths.push(crate::report::repo_root().join("typify-impl/tests/github.json"));
        paths.push(crate::report::repo_root().join("typify-impl/tests/vega.json"));
    } else {
        paths.push(crate::report::repo_root().join("example.json"));
        if let Ok(rd) = std::fs::read_dir(crate::report::repo_root().join("typify/tests/schemas")) {
            let mut ps: Vec<std::path::PathBuf> = rd
                .filter_map(|e| e.ok())
                .map(|e| e.path())
                .filter(|p| p.extension().map(|e| e == "json").unwrap_or(false))
                .collect();
            ps.sort();
            paths.extend(ps);
        }
    }
    let mut v = Vec::new();
    for p in paths {
        if let Ok(text) = std::fs::read_to_string(&p) {
            if let Ok(doc) = serde_json::from_str::<Value>(&text) {
                v.push((p.file_name().unwrap().to_string_lossy().to_string(), doc));
            }
        }
    }
    v
}

/// A history around one repository fixture: the document is delivered whole
/// (add_root_schema) or as its definitions (add_ref_types), between generated
/// components, with $ref look-ups, a re-delivery and renders. The model makes
/// no acceptance predictions about fixture schemas (`model_off`).
pub fn generate_fixture_run(seed: u64, big: bool, faults: bool) -> RunDesc {
    let mut rng = Rng::new(seed);
    let mut sw_rng = rng.fork();
    let hash_key = rng.next_u64();
    let decoy = if rng.chance(1, 4) { rng.range(1, 5) as u32 } else { 0 };
    let mut comp_rng = rng.fork();
    let mut var_rng = rng.fork();
    let mut sw = Swarm::draw(&mut sw_rng, if big { Focus::FixturesBig } else { Focus::Fixtures }, faults);
    if big {
        sw.n_components = 0;
        sw.relation = Some("H4");
    }
    let docs = fixture_docs(big);
    let comps: Vec<Component> = (0..sw.n_components).map(|i| gen_component(&mut comp_rng, &sw, i)).collect();
    let mut settings = SettingsDesc::default();
    settings.struct_builder = rng.chance(1, 2);
    if rng.chance(1, 3) {
        settings.map_type = Some("::std::collections::BTreeMap".into());
    }
    let mut ops: Vec<Op> = Vec::new();
    if docs.is_empty() {
        return RunDesc { seed, hash_key, decoy, faults: "off".into(), settings, ops, variant: None, model_off: true };
    }
    let (_name, doc) = rng.pick(&docs).clone();
    let defs_key = if doc.get("definitions").is_some() { "definitions" } else { "$defs" };
    let def_names: Vec<String> = doc
        .get(defs_key)
        .and_then(|d| d.as_object())
        .map(|d| d.keys().cloned().collect())
        .unwrap_or_default();
    let mut pool: Vec<&Component> = comps.iter().collect();
    if !pool.is_empty() && rng.chance(1, 2) {
        let c = pool.remove(0);
        ops.push(Op::AddRefTypes { defs: c.defs.clone(), poison: None });
    }
    // the fixture, by one of the two routes
    let titled_root = doc.get("title").is_some();
    let fixture_op_index = ops.len();
    if titled_root || def_names.is_empty() || rng.chance(1, 2) {
        ops.push(Op::AddRootSchema { doc: doc.clone(), poison: None });
    } else {
        let defs: Vec<(String, Value)> = doc[defs_key].as_object().unwrap().iter().map(|(k, v)| (k.clone(), v.clone())).collect();
        ops.push(Op::AddRefTypes { defs, poison: None });
    }
    if !big {
        ops.push(Op::Inspect);
        if !def_names.is_empty() && rng.chance(1, 2) {
            ops.push(Op::AddType { schema: r(rng.pick(&def_names).as_str()), hint: None, poison: None });
        }
        if rng.chance(1, 3) && sw.relation.is_none() {
            ops.push(Op::ReAdd { of: fixture_op_index });
        }
        for c in pool {
            ops.push(Op::AddRefTypes { defs: c.defs.clone(), poison: None });
        }
        ops.push(Op::Inspect);
    }
    ops.push(Op::Render);
    let variant = sw.relation.map(|rel| {
        let vops = if rel == "H3" && !titled_root {
            // the other route for the fixture; everything else unchanged
            ops.iter()
                .enumerate()
                .map(|(i, op)| {
                    if i != fixture_op_index {
                        return op.clone();
                    }
                    match op {
                        Op::AddRootSchema { doc, .. } => Op::AddRefTypes {
                            defs: doc
                                .get(defs_key)
                                .and_then(|d| d.as_object())
                                .map(|d| d.iter().map(|(k, v)| (k.clone(), v.clone())).collect())
                                .unwrap_or_default(),
                            poison: None,
                        },
                        Op::AddRefTypes { defs, .. } => {
                            let mut m = Map::new();
                            for (n, s) in defs {
                                m.insert(n.clone(), s.clone());
                            }
                            Op::AddRootSchema { doc: json!({"definitions": m}), poison: None }
                        }
                        other => other.clone(),
                    }
                })
                .collect()
        } else {
            ops.clone()
        };
        Variant {
            relation: if rel == "H3" && titled_root { "H4".into() } else { rel.to_string() },
            hash_key: var_rng.next_u64(),
            decoy: if var_rng.chance(1, 3) { var_rng.range(1, 4) as u32 } else { 0 },
            ops: vops,
        }
    });
    RunDesc { seed, hash_key, decoy, faults: "off".into(), settings, ops, variant, model_off: true }
}
