//! Explicit run description: what a seed expands to, what the executor runs,
//! what the shrinker edits and what a replay file stores. Execution is a pure
//! function of a `RunDesc` and the tree; the seed is kept for reference only.

use serde::{Deserialize, Serialize};
use serde_json::Value;

#[derive(Serialize, Deserialize, Clone, Debug, PartialEq, Default)]
pub struct PatchDesc {
    pub name: String,
    #[serde(default)]
    pub rename: Option<String>,
    #[serde(default)]
    pub derives: Vec<String>,
}

#[derive(Serialize, Deserialize, Clone, Debug, PartialEq, Default)]
pub struct ReplaceDesc {
    pub name: String,
    pub with: String,
}

#[derive(Serialize, Deserialize, Clone, Debug, PartialEq, Default)]
pub struct ConversionDesc {
    /// the schema that is replaced wherever it occurs, exactly as written
    pub schema: Value,
    pub type_name: String,
}

#[derive(Serialize, Deserialize, Clone, Debug, PartialEq, Default)]
pub struct SettingsDesc {
    #[serde(default)]
    pub struct_builder: bool,
    #[serde(default)]
    pub type_mod: Option<String>,
    #[serde(default)]
    pub derives: Vec<String>,
    #[serde(default)]
    pub map_type: Option<String>,
    #[serde(default)]
    pub patches: Vec<PatchDesc>,
    #[serde(default)]
    pub replaces: Vec<ReplaceDesc>,
    #[serde(default)]
    pub conversions: Vec<ConversionDesc>,
}

#[derive(Serialize, Deserialize, Clone, Debug, PartialEq)]
#[serde(tag = "op")]
pub enum Op {
    /// `TypeSpace::add_ref_types(defs)` in the given order.
    AddRefTypes {
        defs: Vec<(String, Value)>,
        #[serde(default, skip_serializing_if = "Option::is_none")]
        poison: Option<String>,
    },
    /// `TypeSpace::add_root_schema(doc)`.
    AddRootSchema {
        doc: Value,
        #[serde(default, skip_serializing_if = "Option::is_none")]
        poison: Option<String>,
    },
    /// `TypeSpace::add_type_with_name(schema, hint)`.
    AddType {
        schema: Value,
        #[serde(default)]
        hint: Option<String>,
        #[serde(default, skip_serializing_if = "Option::is_none")]
        poison: Option<String>,
    },
    /// Deliver operation `of` again, byte-identical.
    ReAdd { of: usize },
    /// `to_stream()` twice + structural oracle.
    Render,
    /// Obtain ids of all definitions (`add_type(&{$ref})`), walk `details()`.
    Inspect,
}

impl Op {
    pub fn kind(&self) -> &'static str {
        match self {
            Op::AddRefTypes { .. } => "AddRefTypes",
            Op::AddRootSchema { .. } => "AddRootSchema",
            Op::AddType { .. } => "AddType",
            Op::ReAdd { .. } => "ReAdd",
            Op::Render => "Render",
            Op::Inspect => "Inspect",
        }
    }
    pub fn is_add(&self) -> bool {
        matches!(
            self,
            Op::AddRefTypes { .. } | Op::AddRootSchema { .. } | Op::AddType { .. }
        )
    }
    pub fn poison(&self) -> Option<&str> {
        match self {
            Op::AddRefTypes { poison, .. }
            | Op::AddRootSchema { poison, .. }
            | Op::AddType { poison, .. } => poison.as_deref(),
            _ => None,
        }
    }
}

#[derive(Serialize, Deserialize, Clone, Debug, PartialEq)]
pub struct Variant {
    /// "H1" permutation, "H2" split/merge, "H3" route, "H4" hash key
    pub relation: String,
    pub hash_key: u64,
    #[serde(default)]
    pub decoy: u32,
    pub ops: Vec<Op>,
}

#[derive(Serialize, Deserialize, Clone, Debug, PartialEq)]
pub struct RunDesc {
    pub seed: u64,
    pub hash_key: u64,
    #[serde(default)]
    pub decoy: u32,
    /// "off" | "on"
    pub faults: String,
    pub settings: SettingsDesc,
    pub ops: Vec<Op>,
    #[serde(default, skip_serializing_if = "Option::is_none")]
    pub variant: Option<Variant>,
    /// the schemas come from outside the generator's fragment (repository
    /// fixtures): the reference model makes no prediction about acceptance of
    /// defaults (I9) or about where Boxes may appear (I8)
    #[serde(default)]
    pub model_off: bool,
}

impl RunDesc {
    /// Shape of the history, used to count distinct histories: op kinds with
    /// the number of definitions / poison kind, in order.
    pub fn shape(&self) -> String {
        let mut s = String::new();
        for op in &self.ops {
            match op {
                Op::AddRefTypes { defs, poison } => {
                    s.push_str(&format!("R{}", defs.len()));
                    if let Some(p) = poison {
                        s.push_str(&format!("!{p}"));
                    }
                }
                Op::AddRootSchema { doc, poison } => {
                    let n = doc
                        .get("definitions")
                        .and_then(|d| d.as_object())
                        .map(|d| d.len())
                        .unwrap_or(0);
                    let titled = doc.get("title").is_some();
                    s.push_str(&format!("S{}{}", n, if titled { "t" } else { "" }));
                    if let Some(p) = poison {
                        s.push_str(&format!("!{p}"));
                    }
                }
                Op::AddType { schema, hint, poison } => {
                    let r = schema.get("$ref").is_some();
                    s.push_str(if r { "Tr" } else { "Ti" });
                    if hint.is_some() {
                        s.push('h');
                    }
                    if let Some(p) = poison {
                        s.push_str(&format!("!{p}"));
                    }
                }
                Op::ReAdd { of } => s.push_str(&format!("A{of}")),
                Op::Render => s.push('r'),
                Op::Inspect => s.push('i'),
            }
            s.push(' ');
        }
        if let Some(v) = &self.variant {
            s.push_str(&format!("| {}", v.relation));
        }
        s
    }
}
