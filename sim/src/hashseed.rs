//! Seam for the per-process hash seed.
//!
//! std's `RandomState::new()` draws its SipHash keys from the OS once per
//! thread (`hashmap_random_keys`), which on Linux resolves the libc symbol
//! `getrandom`. This binary defines that symbol itself, so the simulator owns
//! the key material: one simulated process = one fresh thread started by
//! `run_simulated_process`, with the key material derived from the run's
//! `hash_key`. Nothing else in the harness may use a randomly keyed map.

use std::cell::Cell;
use std::collections::HashSet;

use crate::prng::splitmix64;

thread_local! {
    static HASH_KEY: Cell<Option<u64>> = const { Cell::new(None) };
    static GETRANDOM_CALLS: Cell<u64> = const { Cell::new(0) };
}

/// libc `getrandom` replacement. Threads that have not been given a key (the
/// main thread, worker threads) get a fixed key: the harness itself is then
/// deterministic too.
///
/// # Safety
/// `buf` must be valid for `len` bytes, as for the libc function.
#[no_mangle]
pub unsafe extern "C" fn getrandom(buf: *mut u8, len: usize, _flags: u32) -> isize {
    let key = HASH_KEY.with(|k| k.get()).unwrap_or(0x5EED_5EED_5EED_5EED);
    let calls = GETRANDOM_CALLS.with(|c| {
        let v = c.get();
        c.set(v + 1);
        v
    });
    let mut st = key ^ calls.wrapping_mul(0x9E37_79B9_7F4A_7C15);
    let mut i = 0usize;
    while i < len {
        let word = splitmix64(&mut st).to_le_bytes();
        let n = std::cmp::min(8, len - i);
        std::ptr::copy_nonoverlapping(word.as_ptr(), buf.add(i), n);
        i += n;
    }
    len as isize
}

/// Iteration order of a small `HashSet` in the current simulated process; a
/// probe that the seam really perturbed iteration order.
pub fn canary() -> Vec<u32> {
    let s: HashSet<u32> = (0..8u32).collect();
    s.into_iter().collect()
}

/// Run `f` as one simulated process: a fresh OS thread (so std draws fresh
/// hash keys, from our `getrandom`) with a large stack. `decoy` constructs and
/// drops that many `RandomState`s first, which advances std's per-thread key
/// counter the way unrelated earlier work in a real process would.
pub fn run_simulated_process<T, F>(hash_key: u64, decoy: u32, f: F) -> std::thread::Result<T>
where
    F: FnOnce() -> T + Send + 'static,
    T: Send + 'static,
{
    let handle = std::thread::Builder::new()
        .name(format!("simproc-{hash_key:016x}"))
        .stack_size(64 << 20)
        .spawn(move || {
            HASH_KEY.with(|k| k.set(Some(hash_key)));
            for _ in 0..decoy {
                let m: std::collections::HashMap<u8, u8> = std::collections::HashMap::new();
                drop(m);
            }
            f()
        })
        .expect("spawn simulated process");
    handle.join()
}

pub fn getrandom_calls_on_this_thread() -> u64 {
    GETRANDOM_CALLS.with(|c| c.get())
}
