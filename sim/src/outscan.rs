//! Structural oracle over rendered output: parse as a `syn::File`, build the
//! module tree, and look for what rustc would reject without needing type
//! inference: duplicate items, duplicate fields/variants, duplicate impl
//! headers, and paths that resolve to nothing in the emitted module tree.

use std::collections::{BTreeMap, BTreeSet};

use proc_macro2::TokenStream;
use quote::ToTokens;
use syn::visit::{self, Visit};

#[derive(Default, Debug, Clone)]
pub struct Scope {
    pub types: BTreeSet<String>,
    pub values: BTreeSet<String>,
    pub mods: BTreeMap<String, Scope>,
    pub enum_variants: BTreeMap<String, BTreeSet<String>>,
}

#[derive(Default, Debug, Clone)]
pub struct Scan {
    /// "<module path>::<kind> <name>" -> token text(s)
    pub items: BTreeMap<String, Vec<String>>,
    pub dup_items: Vec<String>,
    pub dup_fields: Vec<String>,
    pub dup_variants: Vec<String>,
    pub dup_impls: Vec<String>,
    pub dup_derives: Vec<String>,
    pub unresolved: Vec<String>,
    /// names of struct/enum/type items in the root module
    pub root_type_names: BTreeSet<String>,
    pub n_items: usize,
    /// a cycle of by-value containment among the root module's types, read off
    /// the rendered definitions themselves (Box/Vec/maps/sets are indirections;
    /// Option, tuples and fixed arrays are not)
    pub by_value_cycle: Option<Vec<String>>,
}

impl Scan {
    pub fn structural_problems(&self) -> Vec<(String, String)> {
        let mut v = Vec::new();
        for d in &self.dup_items {
            v.push(("dup-item".to_string(), d.clone()));
        }
        for d in &self.dup_fields {
            v.push(("dup-field".to_string(), d.clone()));
        }
        for d in &self.dup_variants {
            v.push(("dup-variant".to_string(), d.clone()));
        }
        for d in &self.dup_impls {
            v.push(("dup-impl".to_string(), d.clone()));
        }
        for d in &self.dup_derives {
            v.push(("dup-derive".to_string(), d.clone()));
        }
        for d in &self.unresolved {
            v.push(("unresolved".to_string(), d.clone()));
        }
        v
    }
}

fn strip_docs(attrs: &mut Vec<syn::Attribute>) {
    attrs.retain(|a| !a.path().is_ident("doc"));
}

/// Token text of an item with doc attributes removed (doc comments embed the
/// schema JSON, which is irrelevant for "same definition").
pub fn item_text(item: &syn::Item) -> String {
    // strip at the levels typify emits docs
    let mut item = item.clone();
    match &mut item {
        syn::Item::Struct(s) => {
            strip_docs(&mut s.attrs);
            for f in s.fields.iter_mut() {
                strip_docs(&mut f.attrs);
            }
        }
        syn::Item::Enum(e) => {
            strip_docs(&mut e.attrs);
            for v in e.variants.iter_mut() {
                strip_docs(&mut v.attrs);
                for f in v.fields.iter_mut() {
                    strip_docs(&mut f.attrs);
                }
            }
        }
        syn::Item::Type(t) => strip_docs(&mut t.attrs),
        syn::Item::Fn(f) => strip_docs(&mut f.attrs),
        syn::Item::Impl(i) => strip_docs(&mut i.attrs),
        syn::Item::Mod(m) => strip_docs(&mut m.attrs),
        _ => {}
    }
    item.to_token_stream().to_string()
}

/// `#[derive(A, B, A)]`: the same derive twice means two conflicting impls.
fn check_derives(attrs: &[syn::Attribute], what: &str, scan: &mut Scan) {
    let mut seen = BTreeSet::new();
    for a in attrs {
        if a.path().is_ident("derive") {
            let _ = a.parse_nested_meta(|meta| {
                let name = meta.path.to_token_stream().to_string().replace(' ', "");
                let name = name.trim_start_matches("::").to_string();
                if !seen.insert(name.clone()) {
                    scan.dup_derives.push(format!("{what}: derive({name}) twice"));
                }
                Ok(())
            });
        }
    }
}

fn collect_scope(items: &[syn::Item], path: &str, scan: &mut Scan) -> Scope {
    let mut scope = Scope::default();
    let mut impl_headers: BTreeSet<String> = BTreeSet::new();
    for item in items {
        scan.n_items += 1;
        let (kind, name): (&str, Option<String>) = match item {
            syn::Item::Struct(s) => ("type", Some(s.ident.to_string())),
            syn::Item::Enum(e) => ("type", Some(e.ident.to_string())),
            syn::Item::Type(t) => ("type", Some(t.ident.to_string())),
            syn::Item::Union(u) => ("type", Some(u.ident.to_string())),
            syn::Item::Trait(t) => ("type", Some(t.ident.to_string())),
            syn::Item::Fn(f) => ("value", Some(f.sig.ident.to_string())),
            syn::Item::Const(c) => {
                let n = c.ident.to_string();
                if n == "_" {
                    ("other", None)
                } else {
                    ("value", Some(n))
                }
            }
            syn::Item::Static(s) => ("value", Some(s.ident.to_string())),
            syn::Item::Mod(m) => ("mod", Some(m.ident.to_string())),
            _ => ("other", None),
        };
        match (kind, name) {
            ("type", Some(n)) => {
                if !scope.types.insert(n.clone()) {
                    scan.dup_items.push(format!("{path}::type {n}"));
                }
                scan.items
                    .entry(format!("{path}::type {n}"))
                    .or_default()
                    .push(item_text(item));
                if path.is_empty() {
                    scan.root_type_names.insert(n.clone());
                }
                match item {
                    syn::Item::Struct(s) => {
                        check_derives(&s.attrs, &format!("{path}::{n}"), scan);
                        let mut seen = BTreeSet::new();
                        for f in s.fields.iter() {
                            if let Some(id) = &f.ident {
                                if !seen.insert(id.to_string()) {
                                    scan.dup_fields.push(format!("{path}::{n}.{id}"));
                                }
                            }
                        }
                        // a tuple/unit struct also lives in the value namespace
                        if !matches!(s.fields, syn::Fields::Named(_)) {
                            scope.values.insert(n.clone());
                        }
                    }
                    syn::Item::Enum(e) => {
                        check_derives(&e.attrs, &format!("{path}::{n}"), scan);
                        let mut seen = BTreeSet::new();
                        for v in e.variants.iter() {
                            if !seen.insert(v.ident.to_string()) {
                                scan.dup_variants.push(format!("{path}::{n}::{}", v.ident));
                            }
                            let mut fseen = BTreeSet::new();
                            for f in v.fields.iter() {
                                if let Some(id) = &f.ident {
                                    if !fseen.insert(id.to_string()) {
                                        scan.dup_fields
                                            .push(format!("{path}::{n}::{}.{id}", v.ident));
                                    }
                                }
                            }
                        }
                        scope.enum_variants.insert(n.clone(), seen);
                    }
                    _ => {}
                }
            }
            ("value", Some(n)) => {
                if !scope.values.insert(n.clone()) {
                    scan.dup_items.push(format!("{path}::value {n}"));
                }
                scan.items
                    .entry(format!("{path}::value {n}"))
                    .or_default()
                    .push(item_text(item));
            }
            ("mod", Some(n)) => {
                if scope.mods.contains_key(&n) {
                    scan.dup_items.push(format!("{path}::mod {n}"));
                }
                if let syn::Item::Mod(m) = item {
                    if let Some((_, inner)) = &m.content {
                        let sub = collect_scope(inner, &format!("{path}::{n}"), scan);
                        scope.mods.insert(n, sub);
                    }
                }
            }
            _ => {
                if let syn::Item::Impl(i) = item {
                    let mut hdr = String::new();
                    hdr.push_str(&i.generics.to_token_stream().to_string());
                    hdr.push(' ');
                    if let Some((_, tr, _)) = &i.trait_ {
                        hdr.push_str(&tr.to_token_stream().to_string());
                        hdr.push_str(" for ");
                    }
                    hdr.push_str(&i.self_ty.to_token_stream().to_string());
                    let key = format!("{path}::impl {hdr}");
                    if i.trait_.is_some() {
                        if !impl_headers.insert(hdr.clone()) {
                            scan.dup_impls.push(key.clone());
                        }
                    } else {
                        // inherent impls may repeat; duplicate *methods* may not
                        let mut names = BTreeSet::new();
                        for it in &i.items {
                            if let syn::ImplItem::Fn(f) = it {
                                let k = format!("{hdr}::{}", f.sig.ident);
                                if !names.insert(k.clone()) || !impl_headers.insert(k.clone()) {
                                    scan.dup_impls.push(format!("{path}::fn {k}"));
                                }
                            }
                        }
                    }
                    scan.items.entry(key).or_default().push(item_text(item));
                }
            }
        }
    }
    scope
}

const PRELUDE: &[&str] = &[
    "Option", "Some", "None", "Result", "Ok", "Err", "Vec", "Box", "String", "ToString", "Default",
    "Clone", "Copy", "Send", "Sync", "Sized", "Drop", "Fn", "FnMut", "FnOnce", "From", "Into",
    "TryFrom", "TryInto", "AsRef", "AsMut", "Iterator", "IntoIterator", "Extend", "PartialEq",
    "Eq", "PartialOrd", "Ord", "ToOwned", "Self", "bool", "char", "str", "u8", "u16", "u32", "u64",
    "u128", "i8", "i16", "i32", "i64", "i128", "usize", "isize", "f32", "f64", "FromIterator",
    "DoubleEndedIterator", "ExactSizeIterator", "Unpin",
];

struct Resolver<'a> {
    root: &'a Scope,
    mod_path: Vec<String>,
    generics: Vec<BTreeSet<String>>,
    unresolved: BTreeSet<String>,
}

impl<'a> Resolver<'a> {
    fn scope_at(&self, path: &[String]) -> Option<&'a Scope> {
        let mut s = self.root;
        for p in path {
            s = s.mods.get(p)?;
        }
        Some(s)
    }

    fn in_generics(&self, name: &str) -> bool {
        self.generics.iter().any(|g| g.contains(name))
    }

    fn check_path(&mut self, path: &syn::Path, type_position: bool) {
        if path.leading_colon.is_some() {
            return;
        }
        let segs: Vec<String> = path.segments.iter().map(|s| s.ident.to_string()).collect();
        if segs.is_empty() {
            return;
        }
        let shown = segs.join("::");
        let here = self.mod_path.clone();
        let mut base: Vec<String> = here.clone();
        let mut idx = 0;
        match segs[0].as_str() {
            "crate" => return,
            "Self" => return,
            "self" => {
                idx = 1;
            }
            "super" => {
                while idx < segs.len() && segs[idx] == "super" {
                    if base.pop().is_none() {
                        // above the emitted root: outside our knowledge
                        return;
                    }
                    idx += 1;
                }
            }
            _ => {}
        }
        if idx >= segs.len() {
            return;
        }
        let Some(mut scope) = self.scope_at(&base) else { return };
        let first = &segs[idx];
        let explicit_base = idx > 0;
        if segs.len() - idx == 1 {
            // single name
            let upper = first.chars().next().map(|c| c.is_uppercase()).unwrap_or(false);
            if !explicit_base {
                if self.in_generics(first) || PRELUDE.contains(&first.as_str()) {
                    return;
                }
                if !type_position && !upper {
                    return; // local variable or function
                }
            }
            if scope.types.contains(first) || scope.values.contains(first) {
                return;
            }
            if explicit_base && scope.mods.contains_key(first) {
                return;
            }
            self.unresolved
                .insert(format!("{}: `{}`", here.join("::"), shown));
            return;
        }
        // multi-segment
        if !explicit_base && (self.in_generics(first) || PRELUDE.contains(&first.as_str())) {
            return;
        }
        let mut i = idx;
        loop {
            let seg = &segs[i];
            let last = i + 1 == segs.len();
            if let Some(sub) = scope.mods.get(seg) {
                if last {
                    return;
                }
                scope = sub;
                i += 1;
                continue;
            }
            if scope.types.contains(seg) {
                // Type::Something — check enum variants for two-segment tails
                if !last {
                    if let Some(vars) = scope.enum_variants.get(seg) {
                        let next = &segs[i + 1];
                        let upper = next.chars().next().map(|c| c.is_uppercase()).unwrap_or(false);
                        if upper && i + 2 == segs.len() && !vars.contains(next) {
                            self.unresolved.insert(format!(
                                "{}: `{}` (no such variant)",
                                here.join("::"),
                                shown
                            ));
                        }
                    }
                }
                return;
            }
            if scope.values.contains(seg) {
                return;
            }
            // not found
            let upper = seg.chars().next().map(|c| c.is_uppercase()).unwrap_or(false);
            if i == idx && !explicit_base && !upper {
                // lower-case first segment that is not one of our modules: an
                // external crate or a local (`value::...` cannot be a local)
                return;
            }
            self.unresolved
                .insert(format!("{}: `{}`", here.join("::"), shown));
            return;
        }
    }

    fn push_generics(&mut self, g: &syn::Generics) {
        let mut set = BTreeSet::new();
        for p in g.params.iter() {
            match p {
                syn::GenericParam::Type(t) => {
                    set.insert(t.ident.to_string());
                }
                syn::GenericParam::Const(c) => {
                    set.insert(c.ident.to_string());
                }
                _ => {}
            }
        }
        self.generics.push(set);
    }
}

impl<'a, 'ast> Visit<'ast> for Resolver<'a> {
    fn visit_item_mod(&mut self, m: &'ast syn::ItemMod) {
        self.mod_path.push(m.ident.to_string());
        visit::visit_item_mod(self, m);
        self.mod_path.pop();
    }
    fn visit_item_struct(&mut self, i: &'ast syn::ItemStruct) {
        self.push_generics(&i.generics);
        visit::visit_item_struct(self, i);
        self.generics.pop();
    }
    fn visit_item_enum(&mut self, i: &'ast syn::ItemEnum) {
        self.push_generics(&i.generics);
        visit::visit_item_enum(self, i);
        self.generics.pop();
    }
    fn visit_item_impl(&mut self, i: &'ast syn::ItemImpl) {
        self.push_generics(&i.generics);
        visit::visit_item_impl(self, i);
        self.generics.pop();
    }
    fn visit_item_fn(&mut self, i: &'ast syn::ItemFn) {
        self.push_generics(&i.sig.generics);
        visit::visit_item_fn(self, i);
        self.generics.pop();
    }
    fn visit_impl_item_fn(&mut self, i: &'ast syn::ImplItemFn) {
        self.push_generics(&i.sig.generics);
        visit::visit_impl_item_fn(self, i);
        self.generics.pop();
    }
    fn visit_type_path(&mut self, t: &'ast syn::TypePath) {
        if t.qself.is_none() {
            self.check_path(&t.path, true);
        }
        visit::visit_type_path(self, t);
    }
    fn visit_expr_path(&mut self, e: &'ast syn::ExprPath) {
        if e.qself.is_none() {
            self.check_path(&e.path, false);
        }
        visit::visit_expr_path(self, e);
    }
    fn visit_expr_struct(&mut self, e: &'ast syn::ExprStruct) {
        if e.qself.is_none() {
            self.check_path(&e.path, true);
        }
        visit::visit_expr_struct(self, e);
    }
    fn visit_pat_tuple_struct(&mut self, p: &'ast syn::PatTupleStruct) {
        if p.qself.is_none() {
            self.check_path(&p.path, false);
        }
        visit::visit_pat_tuple_struct(self, p);
    }
    fn visit_pat_struct(&mut self, p: &'ast syn::PatStruct) {
        if p.qself.is_none() {
            self.check_path(&p.path, true);
        }
        visit::visit_pat_struct(self, p);
    }
    fn visit_attribute(&mut self, a: &'ast syn::Attribute) {
        // #[serde(default = "path")] / #[serde(skip_serializing_if = "path")]
        if a.path().is_ident("serde") {
            let _ = a.parse_nested_meta(|meta| {
                if meta.path.is_ident("default") || meta.path.is_ident("skip_serializing_if") {
                    if let Ok(v) = meta.value() {
                        if let Ok(lit) = v.parse::<syn::LitStr>() {
                            if let Ok(p) = lit.parse::<syn::ExprPath>() {
                                self.check_path(&p.path, false);
                                visit::visit_expr_path(self, &p);
                            } else {
                                self.unresolved.insert(format!(
                                    "{}: serde path `{}` does not parse",
                                    self.mod_path.join("::"),
                                    lit.value()
                                ));
                            }
                        }
                    }
                } else if let Ok(v) = meta.value() {
                    let _ = v.parse::<syn::Expr>();
                } else if meta.input.peek(syn::token::Paren) {
                    let _ = meta.parse_nested_meta(|_| Ok(()));
                }
                Ok(())
            });
        }
    }
    fn visit_macro(&mut self, m: &'ast syn::Macro) {
        // vec![..], format!(..), matches!(..): look inside when the body is a
        // comma separated expression list
        use syn::punctuated::Punctuated;
        if let Ok(exprs) =
            m.parse_body_with(Punctuated::<syn::Expr, syn::Token![,]>::parse_terminated)
        {
            for e in exprs.iter() {
                self.visit_expr(e);
            }
        }
    }
}

pub fn scan(ts: TokenStream) -> Result<Scan, String> {
    let file: syn::File = syn::parse2(ts).map_err(|e| format!("{e}"))?;
    Ok(scan_file(&file))
}

pub fn scan_file(file: &syn::File) -> Scan {
    let mut scan = Scan::default();
    let root = collect_scope(&file.items, "", &mut scan);
    let mut r = Resolver {
        root: &root,
        mod_path: Vec::new(),
        generics: Vec::new(),
        unresolved: BTreeSet::new(),
    };
    r.visit_file(file);
    scan.unresolved = r.unresolved.into_iter().collect();
    scan.by_value_cycle = by_value_cycle(file);
    scan
}

fn by_value_targets(ty: &syn::Type, local: &BTreeSet<String>, out: &mut BTreeSet<String>) {
    match ty {
        syn::Type::Path(tp) => {
            let Some(last) = tp.path.segments.last() else { return };
            let name = last.ident.to_string();
            match name.as_str() {
                "Option" => {
                    if let syn::PathArguments::AngleBracketed(a) = &last.arguments {
                        for arg in &a.args {
                            if let syn::GenericArgument::Type(t) = arg {
                                by_value_targets(t, local, out);
                            }
                        }
                    }
                }
                // heap indirections (and anything generic the output did not define)
                "Box" | "Vec" | "HashMap" | "BTreeMap" | "HashSet" | "BTreeSet" | "Map" => {}
                _ => {
                    if tp.qself.is_none() && tp.path.leading_colon.is_none() && tp.path.segments.len() == 1 && local.contains(&name) {
                        out.insert(name);
                    }
                }
            }
        }
        syn::Type::Array(a) => by_value_targets(&a.elem, local, out),
        syn::Type::Tuple(t) => {
            for e in &t.elems {
                by_value_targets(e, local, out);
            }
        }
        syn::Type::Paren(p) => by_value_targets(&p.elem, local, out),
        syn::Type::Group(g) => by_value_targets(&g.elem, local, out),
        _ => {}
    }
}

/// Some cycle of by-value containment among the structs and enums of the root
/// module, or None. Such a type has infinite size (rustc E0072).
pub fn by_value_cycle(file: &syn::File) -> Option<Vec<String>> {
    let mut local: BTreeSet<String> = BTreeSet::new();
    for item in &file.items {
        match item {
            syn::Item::Struct(s) => {
                local.insert(s.ident.to_string());
            }
            syn::Item::Enum(e) => {
                local.insert(e.ident.to_string());
            }
            _ => {}
        }
    }
    let mut graph: BTreeMap<String, BTreeSet<String>> = BTreeMap::new();
    let fields_of = |fields: &syn::Fields, out: &mut BTreeSet<String>| {
        for f in fields.iter() {
            by_value_targets(&f.ty, &local, out);
        }
    };
    for item in &file.items {
        match item {
            syn::Item::Struct(s) => {
                let e = graph.entry(s.ident.to_string()).or_default();
                fields_of(&s.fields, e);
            }
            syn::Item::Enum(en) => {
                let e = graph.entry(en.ident.to_string()).or_default();
                for v in &en.variants {
                    fields_of(&v.fields, e);
                }
            }
            _ => {}
        }
    }
    // depth-first search with an explicit path
    fn visit(n: &str, graph: &BTreeMap<String, BTreeSet<String>>, path: &mut Vec<String>, done: &mut BTreeSet<String>) -> Option<Vec<String>> {
        if let Some(pos) = path.iter().position(|p| p == n) {
            let mut cyc: Vec<String> = path[pos..].to_vec();
            cyc.push(n.to_string());
            return Some(cyc);
        }
        if done.contains(n) {
            return None;
        }
        path.push(n.to_string());
        if let Some(tos) = graph.get(n) {
            for t in tos {
                if let Some(c) = visit(t, graph, path, done) {
                    return Some(c);
                }
            }
        }
        path.pop();
        done.insert(n.to_string());
        None
    }
    let mut done = BTreeSet::new();
    for n in graph.keys() {
        if let Some(c) = visit(n, &graph, &mut Vec::new(), &mut done) {
            return Some(c);
        }
    }
    None
}

#[cfg(test)]
mod tests {
    use super::*;
    use quote::quote;

    #[test]
    fn finds_dups_and_unresolved() {
        let s = scan(quote! {
            pub struct A { pub x: B, pub x: u8 }
            pub struct A;
            pub enum E { V, V }
            impl From<&A> for A { fn from(v: &A) -> Self { v.clone() } }
            impl From<&A> for A { fn from(v: &A) -> Self { v.clone() } }
            pub mod defaults { pub fn f() -> super::A { super::Zed } }
            pub struct C { #[serde(default = "defaults::g")] pub y: Option<A> }
        })
        .unwrap();
        assert_eq!(s.dup_items.len(), 1, "{:?}", s.dup_items);
        assert_eq!(s.dup_fields.len(), 1);
        assert_eq!(s.dup_variants.len(), 1);
        assert_eq!(s.dup_impls.len(), 1);
        assert!(s.unresolved.iter().any(|u| u.contains("`B`")), "{:?}", s.unresolved);
        assert!(s.unresolved.iter().any(|u| u.contains("super::Zed")), "{:?}", s.unresolved);
        assert!(s.unresolved.iter().any(|u| u.contains("defaults::g")), "{:?}", s.unresolved);
        assert_eq!(s.unresolved.len(), 3, "{:?}", s.unresolved);
    }

    #[test]
    fn clean_is_clean() {
        let s = scan(quote! {
            pub mod error { pub struct ConversionError(::std::borrow::Cow<'static, str>);
                impl From<String> for ConversionError { fn from(value: String) -> Self { Self(value.into()) } } }
            pub struct A { pub x: ::std::option::Option<B> }
            pub enum B { X, Y(A) }
            impl ::std::str::FromStr for B { type Err = self::error::ConversionError;
                fn from_str(value: &str) -> ::std::result::Result<Self, self::error::ConversionError> {
                    match value { "x" => Ok(Self::X), _ => Err("invalid value".into()) } } }
            impl A { pub fn builder() -> builder::A { Default::default() } }
            pub mod builder { pub struct A { x: ::std::result::Result<::std::option::Option<super::B>, ::std::string::String> }
                impl A { pub fn x<T>(mut self, value: T) -> Self where T: ::std::convert::TryInto<::std::option::Option<super::B>>, T::Error: ::std::fmt::Display { self } } }
        })
        .unwrap();
        assert!(s.structural_problems().is_empty(), "{:?}", s.structural_problems());
    }
}
