//! procsim, macro half: the real `import_types!` inside real rustc
//! (`-Zunpretty=expanded`), with the hash seed of the rustc process owned
//! through the LD_PRELOAD shim, compared with the builder API's tokens
//! expanded the same way (so that serde's and std's derives expand
//! identically on both sides).

use std::collections::BTreeMap;
use std::path::{Path, PathBuf};
use std::process::Command;

use serde::{Deserialize, Serialize};
use serde_json::{json, Value};

use crate::prng::Rng;
use crate::report::verif_root;

#[derive(Serialize, Deserialize, Clone, Debug, PartialEq)]
pub struct ImplSpec {
    /// `?Trait` when true, `Trait` otherwise
    pub maybe: bool,
    pub name: String,
}

#[derive(Serialize, Deserialize, Clone, Debug, PartialEq, Default)]
pub struct MacroOptions {
    #[serde(default)]
    pub derives: Vec<String>,
    #[serde(default)]
    pub struct_builder: Option<bool>,
    #[serde(default)]
    pub unknown_crates: Option<String>,
    /// (key, original crate for `orig@version` form, version)
    #[serde(default)]
    pub crates: Vec<(String, Option<String>, String)>,
    #[serde(default)]
    pub map_type: Option<String>,
    /// (type name, rename, derives)
    #[serde(default)]
    pub patches: Vec<(String, Option<String>, Vec<String>)>,
    /// (definition name, replacement path, impl specs)
    #[serde(default)]
    pub replaces: Vec<(String, String, Vec<ImplSpec>)>,
    /// (schema object as flat key/value strings, replacement path, impl specs)
    #[serde(default)]
    pub converts: Vec<(BTreeMap<String, String>, String, Vec<ImplSpec>)>,
}

fn impls_text(impls: &[ImplSpec]) -> String {
    if impls.is_empty() {
        String::new()
    } else {
        format!(
            ": {}",
            impls
                .iter()
                .map(|i| format!("{}{}", if i.maybe { "?" } else { "" }, i.name))
                .collect::<Vec<_>>()
                .join(" + ")
        )
    }
}

/// The impl set a `Type: ?A + B` clause means, per the macro's documentation:
/// FromStr and Display are assumed; `?Trait` removes, `Trait` adds.
fn impls_meaning(impls: &[ImplSpec]) -> Vec<typify_impl::TypeSpaceImpl> {
    use typify_impl::TypeSpaceImpl as I;
    let mut set = std::collections::BTreeSet::new();
    set.insert(I::FromStr);
    set.insert(I::Display);
    for i in impls {
        let t = match i.name.as_str() {
            "FromStr" => I::FromStr,
            "Display" => I::Display,
            "Default" => I::Default,
            _ => continue,
        };
        if i.maybe {
            set.remove(&t);
        } else {
            set.insert(t);
        }
    }
    set.into_iter().collect()
}

fn tokens_form(path: &str) -> String {
    // the macro hands paths on as `to_token_stream().to_string()`
    match syn::parse_str::<syn::Path>(path) {
        Ok(p) => quote::ToTokens::to_token_stream(&p).to_string(),
        Err(_) => path.to_string(),
    }
}

impl MacroOptions {
    pub fn source(&self, schema_file: &str) -> String {
        let mut s = format!("typify::import_types!(\n    schema = \"{schema_file}\",\n");
        if !self.derives.is_empty() {
            s.push_str(&format!("    derives = [{}],\n", self.derives.join(", ")));
        }
        if let Some(b) = self.struct_builder {
            s.push_str(&format!("    struct_builder = {b},\n"));
        }
        if let Some(u) = &self.unknown_crates {
            s.push_str(&format!("    unknown_crates = {u},\n"));
        }
        if !self.crates.is_empty() {
            s.push_str("    crates = {\n");
            for (key, orig, vers) in &self.crates {
                match orig {
                    Some(o) => s.push_str(&format!("        \"{key}\" = \"{o}@{vers}\",\n")),
                    None => s.push_str(&format!("        \"{key}\" = \"{vers}\",\n")),
                }
            }
            s.push_str("    },\n");
        }
        if let Some(m) = &self.map_type {
            s.push_str(&format!("    map_type = \"{m}\",\n"));
        }
        if !self.patches.is_empty() {
            s.push_str("    patch = {\n");
            for (name, rename, derives) in &self.patches {
                s.push_str(&format!("        {name} = {{\n"));
                if let Some(r) = rename {
                    s.push_str(&format!("            rename = \"{r}\",\n"));
                }
                if !derives.is_empty() {
                    s.push_str(&format!("            derives = [{}],\n", derives.join(", ")));
                }
                s.push_str("        },\n");
            }
            s.push_str("    },\n");
        }
        if !self.replaces.is_empty() {
            s.push_str("    replace = {\n");
            for (name, path, impls) in &self.replaces {
                s.push_str(&format!("        {name} = {path}{},\n", impls_text(impls)));
            }
            s.push_str("    },\n");
        }
        if !self.converts.is_empty() {
            s.push_str("    convert = {\n");
            for (schema, path, impls) in &self.converts {
                s.push_str("        {\n");
                for (k, v) in schema {
                    s.push_str(&format!("            {k} = \"{v}\",\n"));
                }
                s.push_str(&format!("        }} = {path}{},\n", impls_text(impls)));
            }
            s.push_str("    },\n");
        }
        s.push_str(");\n");
        s
    }

    /// The settings the option block means, per the macro's documentation.
    pub fn settings(&self) -> typify_impl::TypeSpaceSettings {
        let mut s = typify_impl::TypeSpaceSettings::default();
        for d in &self.derives {
            s.with_derive(tokens_form(d));
        }
        s.with_struct_builder(self.struct_builder.unwrap_or(false));
        for (name, rename, derives) in &self.patches {
            let mut p = typify_impl::TypeSpacePatch::default();
            if let Some(r) = rename {
                p.with_rename(r);
            }
            for d in derives {
                p.with_derive(tokens_form(d));
            }
            s.with_patch(name, &p);
        }
        for (name, path, impls) in &self.replaces {
            s.with_replacement(name, tokens_form(path), impls_meaning(impls).into_iter());
        }
        for (schema, path, impls) in &self.converts {
            let mut o = serde_json::Map::new();
            for (k, v) in schema {
                o.insert(k.clone(), json!(v));
            }
            let so: schemars::schema::SchemaObject = serde_json::from_value(Value::Object(o)).expect("flat schema object");
            s.with_conversion(so, tokens_form(path), impls_meaning(impls).into_iter());
        }
        for (key, orig, vers) in &self.crates {
            let v = typify_impl::CrateVers::parse(vers).expect("valid version");
            match orig {
                Some(o) => s.with_crate(o, v, Some(key)),
                None => s.with_crate(key, v, None),
            };
        }
        if let Some(u) = &self.unknown_crates {
            s.with_unknown_crates(match u.as_str() {
                "Allow" => typify_impl::UnknownPolicy::Allow,
                "Deny" => typify_impl::UnknownPolicy::Deny,
                _ => typify_impl::UnknownPolicy::Generate,
            });
        }
        if let Some(m) = &self.map_type {
            s.with_map_type(m.as_str());
        }
        s
    }

    /// two `crates` entries naming the same original crate: the block is
    /// ambiguous (which one is meant is not documented)
    pub fn aliasing(&self) -> bool {
        let mut seen = std::collections::BTreeSet::new();
        for (key, orig, _) in &self.crates {
            let o = orig.clone().unwrap_or_else(|| key.clone());
            if !seen.insert(o) {
                return true;
            }
        }
        false
    }
}

#[derive(Serialize, Deserialize, Clone, Debug, PartialEq)]
pub struct MacroRun {
    pub seed: u64,
    pub doc_name: String,
    pub doc: String,
    pub options: MacroOptions,
    pub hash_seed: u64,
    /// "none" | "manifest-dir-unset" | "schema-missing"
    pub env_fault: String,
}

pub struct MacroTools {
    pub rustc: PathBuf,
    pub deps: PathBuf,
    pub externs: Vec<(String, PathBuf)>,
    pub shim: PathBuf,
}

impl MacroTools {
    /// Build (incrementally) the template crate's dependencies — typify and
    /// typify-macro from /repo's working tree — and read the artifact paths
    /// from cargo's machine-readable output.
    pub fn prepare() -> Result<MacroTools, String> {
        let root = verif_root();
        let host = root.join("sim/macro-host");
        let out = Command::new("cargo")
            .args(["build", "--offline", "--message-format=json"])
            .current_dir(&host)
            .env("CARGO_NET_OFFLINE", "true")
            .output()
            .map_err(|e| format!("cargo build (macro-host): {e}"))?;
        if !out.status.success() {
            return Err(format!(
                "building the macro host dependencies failed:\n{}",
                String::from_utf8_lossy(&out.stderr).lines().rev().take(30).collect::<Vec<_>>().into_iter().rev().collect::<Vec<_>>().join("\n")
            ));
        }
        let mut externs = Vec::new();
        let mut deps = None;
        for line in String::from_utf8_lossy(&out.stdout).lines() {
            let Ok(m) = serde_json::from_str::<Value>(line) else { continue };
            if m.get("reason") != Some(&json!("compiler-artifact")) {
                continue;
            }
            let name = m["target"]["name"].as_str().unwrap_or("").to_string();
            const WANTED: &[&str] = &[
                "typify", "serde", "serde_json", "chrono", "uuid", "regress",
                // stand-ins for the fake crates of the x-rust-type pool and their renames
                "base64", "my_crate_x", "uuid1", "h2", "plain", "renamed", "other_name", "alt_2", "zz_alias",
            ];
            if WANTED.contains(&name.as_str()) {
                if let Some(f) = m["filenames"].as_array().and_then(|a| a.iter().filter_map(|x| x.as_str()).find(|x| x.ends_with(".rlib"))) {
                    let p = PathBuf::from(f);
                    deps = p.parent().map(|d| d.to_path_buf());
                    externs.push((name, p));
                }
            }
        }
        externs.sort();
        externs.dedup_by(|a, b| a.0 == b.0);
        if externs.len() != 15 {
            return Err(format!("macro host: expected 15 extern artifacts, found {:?}", externs));
        }
        let rustfmt = crate::procsim::find_rustfmt()?;
        let rustc = rustfmt.with_file_name("rustc");
        Ok(MacroTools {
            rustc,
            deps: deps.unwrap(),
            externs,
            shim: root.join("target/shim/libverifshim.so"),
        })
    }
}

pub struct Expansion {
    pub ok: bool,
    pub stdout: String,
    pub stderr: String,
}

pub fn expand(tools: &MacroTools, dir: &Path, file: &str, hash_seed: u64, manifest_dir: Option<&Path>) -> Result<Expansion, String> {
    expand_from(tools, dir, file, hash_seed, manifest_dir, true)
}

/// `decoy_cwd`: start rustc from a directory that holds another `schema.json`.
pub fn expand_from(tools: &MacroTools, dir: &Path, file: &str, hash_seed: u64, manifest_dir: Option<&Path>, decoy_cwd: bool) -> Result<Expansion, String> {
    let mut cmd = Command::new(&tools.rustc);
    cmd.arg("--edition=2021")
        .arg("--crate-type=lib")
        .arg("--crate-name=mh")
        .arg("-Zunpretty=expanded")
        .arg("--cap-lints=allow")
        .arg("-L")
        .arg(format!("dependency={}", tools.deps.display()));
    for (n, p) in &tools.externs {
        cmd.arg("--extern").arg(format!("{n}={}", p.display()));
    }
    // the source file is named absolutely; with a manifest directory set, rustc is
    // started from ANOTHER directory that holds a decoy `schema.json` (cargo starts
    // rustc from the workspace root, not from the package): the macro resolves the
    // schema against CARGO_MANIFEST_DIR, never against the current directory
    cmd.arg(dir.join(file));
    if manifest_dir.is_some() && decoy_cwd {
        let elsewhere = dir.join("elsewhere");
        let _ = std::fs::create_dir_all(&elsewhere);
        let _ = std::fs::write(
            elsewhere.join("schema.json"),
            r#"{"$schema":"http://json-schema.org/draft-07/schema#","title":"Decoy","type":"object","properties":{"decoy":{"type":"string"}}}"#,
        );
        cmd.current_dir(&elsewhere);
    } else {
        cmd.current_dir(dir);
    }
    cmd.env_clear();
    cmd.env("PATH", "/usr/bin:/bin");
    cmd.env("RUSTC_BOOTSTRAP", "1");
    cmd.env("LD_PRELOAD", &tools.shim);
    cmd.env("VERIF_SHIM_TARGET", "rustc");
    cmd.env("VERIF_HASH_SEED", hash_seed.to_string());
    if let Some(m) = manifest_dir {
        cmd.env("CARGO_MANIFEST_DIR", m);
    }
    let out = cmd.output().map_err(|e| format!("spawn rustc: {e}"))?;
    Ok(Expansion {
        ok: out.status.success(),
        stdout: String::from_utf8_lossy(&out.stdout).to_string(),
        stderr: String::from_utf8_lossy(&out.stderr).to_string(),
    })
}

/// Items of an expanded crate, the macro's `include_str!` anchor removed.
pub fn expanded_items(src: &str) -> Result<Vec<String>, String> {
    let f: syn::File = syn::parse_str(src).map_err(|e| format!("{e}"))?;
    let mut v = Vec::new();
    for i in &f.items {
        if let syn::Item::Const(c) = i {
            if c.ident == "_" {
                if let syn::Type::Reference(r) = &*c.ty {
                    if let syn::Type::Path(p) = &*r.elem {
                        if p.path.is_ident("str") {
                            continue; // const _: &str = include_str!(..) anchor
                        }
                    }
                }
            }
        }
        v.push(quote::ToTokens::to_token_stream(i).to_string());
    }
    Ok(v)
}

const DERIVE_POOL: &[&str] = &["PartialEq", "Eq", "Hash", "PartialOrd", "Ord", "std::cmp::PartialEq", "::std::hash::Hash", "::std::cmp::Eq"];

pub fn gen_macro_run(seed: u64, fixtures: &[crate::procsim::CorpusDoc]) -> MacroRun {
    let mut rng = Rng::new(seed);
    let mut o = MacroOptions::default();
    // document
    let (doc_name, doc, names): (String, String, Vec<String>) = match rng.below(5) {
        0 | 4 => {
            let d = crate::procsim::gen_ext_doc(&mut rng);
            (d.name, d.text, vec!["Holder".into(), "Dict".into()])
        }
        1 => {
            let d = rng.pick(fixtures).clone();
            let names = serde_json::from_str::<Value>(&d.text)
                .ok()
                .and_then(|v| v.get("definitions").or_else(|| v.get("$defs")).and_then(|d| d.as_object().cloned()))
                .map(|m| m.keys().cloned().collect())
                .unwrap_or_default();
            (d.name, d.text, names)
        }
        _ => {
            let (doc, names) = crate::gen::gen_document(rng.next_u64(), rng.chance(1, 2));
            (format!("gen-{:08x}", seed as u32), serde_json::to_string_pretty(&doc).unwrap(), names)
        }
    };
    // options (swarm: each kind present with some probability)
    let nd = *rng.pick(&[0usize, 0, 1, 2]);
    let mut idx: Vec<usize> = (0..DERIVE_POOL.len()).collect();
    rng.shuffle(&mut idx);
    for i in idx.into_iter().take(nd) {
        o.derives.push(DERIVE_POOL[i].to_string());
    }
    o.struct_builder = *rng.pick(&[None, Some(true), Some(false)]);
    o.unknown_crates = rng.pick(&[None, None, Some("Generate"), Some("Allow"), Some("Deny")]).map(String::from);
    o.map_type = rng
        .pick(&[None, None, Some("::std::collections::BTreeMap"), Some("std::collections::HashMap"), Some("::indexmap::IndexMap")])
        .map(String::from);
    let pool = [("base64", "0.22.0"), ("my-crate_x", "1.2.3"), ("uuid1", "1.16.0"), ("h2", "0.4.1"), ("plain", "2.0.0"), ("std", "1.0.0"), ("serde_json", "1.0.140"), ("chrono", "0.4.39")];
    let mentioned = crate::procsim::doc_crates(&doc);
    let nc = if mentioned.is_empty() { *rng.pick(&[0usize, 0, 1, 2, 3]) } else { *rng.pick(&[0usize, 1, 1, 2, 2, 3]) };
    let cidx = crate::procsim::crate_order(&mut rng, &mentioned);
    let _ = &pool;
    for i in cidx.into_iter().take(nc) {
        let (name, vers) = crate::procsim::ext_crate(i);
        let version = match rng.below(5) {
            0 => "*".to_string(),
            1 => "!".to_string(),
            2 => "0.0.1".to_string(),
            _ => vers.to_string(),
        };
        if rng.chance(1, 2) && crate::procsim::is_fake_crate(name) {
            let key = rng.pick(&["renamed", "other-name", "alt_2"]).to_string();
            // the option block is a map: a key can appear once
            if o.crates.iter().any(|c| c.0 == key) {
                continue;
            }
            o.crates.push((key, Some(name.to_string()), version));
        } else {
            o.crates.push((name.to_string(), None, version));
        }
    }
    if nc > 0 && rng.chance(1, 6) {
        // aliasing block: a second entry for an original crate already named
        let (_, orig, _) = o.crates[0].clone();
        let orig = orig.unwrap_or_else(|| o.crates[0].0.clone());
        o.crates.push(("zz-alias".to_string(), Some(orig), "9.9.9".to_string()));
    }
    let mut named: Vec<String> = names.iter().filter(|n| syn::parse_str::<syn::Ident>(n).is_ok()).cloned().collect();
    named.sort();
    if !named.is_empty() {
        if rng.chance(1, 3) {
            let n = rng.pick(&named).clone();
            o.patches.push((
                n.clone(),
                if rng.chance(2, 3) { Some(format!("{n}Patched")) } else { None },
                match rng.below(4) {
                    0 => vec!["PartialEq".into()],
                    1 => vec!["::std::cmp::PartialEq".into()],
                    _ => vec![],
                },
            ));
        }
        if named.len() >= 2 && !o.patches.is_empty() && rng.chance(1, 2) {
            // a second patch entry for ANOTHER type, with its own derives / rename:
            // every entry applies to its own type only
            let first = o.patches[0].0.clone();
            let others: Vec<&String> = named.iter().filter(|n| **n != first).collect();
            let n = (*rng.pick(&others)).clone();
            o.patches.push((
                n.clone(),
                if rng.chance(1, 2) { Some(format!("{n}Second")) } else { None },
                match rng.below(3) {
                    0 => vec!["Eq".into(), "PartialEq".into()],
                    1 => vec!["::std::hash::Hash".into()],
                    _ => vec![],
                },
            ));
        }
        if rng.chance(1, 2) {
            // prefer a definition that some other definition merely aliases
            // (`"Handle": {"$ref": ".../Token"}`): the impls declared for the
            // replacement decide which impls the aliasing newtype gets
            let aliased: Vec<String> = serde_json::from_str::<Value>(&doc)
                .ok()
                .and_then(|v| v.get("definitions").or_else(|| v.get("$defs")).and_then(|d| d.as_object().cloned()))
                .map(|defs| {
                    defs.values()
                        .filter(|d| d.as_object().map(|o| o.len() == 1).unwrap_or(false))
                        .filter_map(|d| d.get("$ref").and_then(|r| r.as_str()).map(|r| r.rsplit('/').next().unwrap_or("").to_string()))
                        .filter(|t| named.contains(t))
                        .collect()
                })
                .unwrap_or_default();
            let n = if !aliased.is_empty() && rng.chance(2, 3) { rng.pick(&aliased).clone() } else { rng.pick(&named).clone() };
            let impls = match rng.below(4) {
                0 => vec![],
                1 => vec![ImplSpec { maybe: true, name: "Display".into() }],
                2 => vec![ImplSpec { maybe: true, name: "FromStr".into() }, ImplSpec { maybe: false, name: "Default".into() }],
                _ => vec![ImplSpec { maybe: false, name: "Default".into() }],
            };
            o.replaces.push((n, rng.pick(&["my_types::Custom", "::std::string::String", "crate::Thing"]).to_string(), impls));
        }
    }
    // the same type named twice in `patch`: like repeated `with_patch` calls, the
    // later entry replaces the earlier one
    if let Some((n, _, _)) = o.patches.first().cloned() {
        if rng.chance(1, 5) {
            o.patches.push((n.clone(), Some(format!("{n}Again")), vec![]));
        }
    }
    // a second patch/replace entry whose key differs only in spelling from an
    // existing key (lower-camel instead of Pascal case): on its own it names no
    // type and is silently ignored (documented), so it must not influence the result
    let respell = |n: &str| -> Option<String> {
        let mut c = n.chars();
        let first = c.next()?;
        let v: String = first.to_lowercase().chain(c).collect();
        if v != n && syn::parse_str::<syn::Ident>(&v).is_ok() {
            Some(v)
        } else {
            None
        }
    };
    if let Some((n, _, _)) = o.patches.first().cloned() {
        if rng.chance(1, 3) {
            if let Some(v) = respell(&n) {
                o.patches.push((v, Some(format!("{n}Respelled")), vec![]));
            }
        }
    }
    if let Some((n, _, _)) = o.replaces.first().cloned() {
        if rng.chance(1, 3) {
            if let Some(v) = respell(&n) {
                o.replaces.push((v, "my_types::Respelled".to_string(), vec![]));
            }
        }
    }
    if rng.chance(1, 4) {
        let mut schema = BTreeMap::new();
        match rng.below(3) {
            0 => {
                schema.insert("type".to_string(), "boolean".to_string());
            }
            1 => {
                schema.insert("type".to_string(), "string".to_string());
            }
            _ => {
                schema.insert("type".to_string(), "number".to_string());
                schema.insert("format".to_string(), "double".to_string());
            }
        }
        o.converts.push((schema, "my_types::Converted".to_string(), if rng.chance(1, 2) { vec![ImplSpec { maybe: true, name: "FromStr".into() }] } else { vec![] }));
    }
    let env_fault = match rng.below(10) {
        0 => "manifest-dir-unset",
        1 => "schema-missing",
        _ => "none",
    }
    .to_string();
    MacroRun {
        seed,
        doc_name,
        doc,
        options: o,
        hash_seed: rng.next_u64() >> 1,
        env_fault,
    }
}

#[derive(Serialize, Deserialize, Clone, Debug, PartialEq)]
pub struct MacroViolation {
    pub oracle: String,
    pub key: String,
    pub observed: String,
    pub expected: String,
}

#[derive(Default, Debug, Clone)]
pub struct MacroOutcome {
    pub violations: Vec<MacroViolation>,
    pub macro_ok: bool,
    pub builder_ok: bool,
    pub items: usize,
    pub expansions: usize,
    pub digest: u64,
}

/// One macro run: expand the invocation, expand the twin (builder tokens),
/// compare; then the same invocation under other hash seeds (O5).
pub fn execute_macro(run: &MacroRun, tools: &MacroTools, work_base: &Path, extra_hash_seeds: &[u64]) -> Result<MacroOutcome, String> {
    let dir = work_base.join(format!("m{:016x}-{}", run.seed, std::process::id()));
    let _ = std::fs::remove_dir_all(&dir);
    std::fs::create_dir_all(&dir).map_err(|e| e.to_string())?;
    let r = execute_macro_in(run, tools, &dir, extra_hash_seeds);
    let _ = std::fs::remove_dir_all(&dir);
    r
}

fn execute_macro_in(run: &MacroRun, tools: &MacroTools, dir: &Path, extra_hash_seeds: &[u64]) -> Result<MacroOutcome, String> {
    let mut out = MacroOutcome::default();
    if run.env_fault != "schema-missing" {
        std::fs::write(dir.join("schema.json"), &run.doc).map_err(|e| e.to_string())?;
    }
    std::fs::write(dir.join("macro.rs"), run.options.source("schema.json")).map_err(|e| e.to_string())?;
    let manifest: Option<&Path> = if run.env_fault == "manifest-dir-unset" { None } else { Some(dir) };
    let m = expand(tools, dir, "macro.rs", run.hash_seed, manifest)?;
    out.expansions += 1;
    out.macro_ok = m.ok;
    let ice = |e: &Expansion| e.stderr.contains("internal compiler error") || e.stderr.contains("rustc unexpectedly panicked");
    if ice(&m) {
        out.violations.push(MacroViolation {
            oracle: "M0".into(),
            key: format!("macro:rustc-ice:{}", run.env_fault),
            observed: m.stderr.lines().take(6).collect::<Vec<_>>().join(" | "),
            expected: "a compile error, not a compiler crash".into(),
        });
        return Ok(out);
    }
    if run.env_fault == "schema-missing" {
        if m.ok || !m.stderr.contains("schema.json") {
            out.violations.push(MacroViolation {
                oracle: "M3".into(),
                key: "macro:missing-schema-not-reported".into(),
                observed: format!("ok={} stderr: {}", m.ok, m.stderr.lines().take(4).collect::<Vec<_>>().join(" | ")),
                expected: "a compile error naming the file".into(),
            });
        }
        return Ok(out);
    }
    // reference: the builder with the settings the block means
    let settings = run.options.settings();
    let doc = run.doc.clone();
    let reference: Result<String, String> = std::panic::catch_unwind(std::panic::AssertUnwindSafe(|| {
        let root: schemars::schema::RootSchema = serde_json::from_str(&doc).map_err(|e| format!("parse: {e}"))?;
        let mut ts = typify_impl::TypeSpace::new(&settings);
        ts.add_root_schema(root).map_err(|e| format!("convert: {e}"))?;
        Ok::<String, String>(ts.to_stream().to_string())
    }))
    .unwrap_or_else(|_| Err("builder panicked".into()));
    out.builder_ok = reference.is_ok();
    let aliasing = run.options.aliasing();
    match (&reference, m.ok) {
        (Err(_), true) => {
            if !aliasing {
                out.violations.push(MacroViolation {
                    oracle: "M1".into(),
                    key: "macro:accepts-what-builder-rejects".into(),
                    observed: format!("the macro expanded although the builder fails: {:?}", reference),
                    expected: "the same verdict from both front-ends".into(),
                });
            }
        }
        (Err(_), false) => {}
        (Ok(tokens), false) => {
            // Is it the macro that fails, or rustc on what either front-end
            // produces (e.g. a path into a crate that is not a dependency)?
            // The builder's tokens decide: if they do not expand either, the
            // failure is not a difference between the front-ends.
            std::fs::write(dir.join("twin.rs"), tokens).map_err(|e| e.to_string())?;
            let t = expand(tools, dir, "twin.rs", run.hash_seed, manifest)?;
            out.expansions += 1;
            if t.ok && !aliasing {
                out.violations.push(MacroViolation {
                    oracle: "M1".into(),
                    key: "macro:rejects-what-builder-accepts".into(),
                    observed: m.stderr.lines().filter(|l| !l.trim().is_empty()).take(5).collect::<Vec<_>>().join(" | "),
                    expected: "the macro expands whenever the builder accepts the document under the equivalent settings".into(),
                });
            }
        }
        (Ok(tokens), true) => {
            std::fs::write(dir.join("twin.rs"), tokens).map_err(|e| e.to_string())?;
            let t = expand(tools, dir, "twin.rs", run.hash_seed, manifest)?;
            out.expansions += 1;
            if !t.ok {
                // the builder's own tokens do not expand (e.g. a derive that does not resolve): not a front-end matter
                return Ok(out);
            }
            let a = expanded_items(&m.stdout).map_err(|e| format!("macro expansion does not parse: {e}"))?;
            let b = expanded_items(&t.stdout).map_err(|e| format!("twin expansion does not parse: {e}"))?;
            out.items = a.len();
            out.digest = crate::prng::fnv64(m.stdout.as_bytes());
            if a != b && !aliasing {
                let first = a.iter().zip(b.iter()).position(|(x, y)| x != y).unwrap_or(std::cmp::min(a.len(), b.len()));
                let (x, y) = (a.get(first).cloned().unwrap_or_default(), b.get(first).cloned().unwrap_or_default());
                let pos = x.chars().zip(y.chars()).position(|(p, q)| p != q).unwrap_or(0);
                let cut = |s: &str| -> String { s.chars().skip(pos.saturating_sub(80)).take(220).collect() };
                out.violations.push(MacroViolation {
                    oracle: "M2".into(),
                    key: "macro:items-differ-from-builder".into(),
                    observed: format!("{} items vs {}; first difference in item {first}: macro `…{}…` / builder `…{}…`", a.len(), b.len(), cut(&x), cut(&y)),
                    expected: "the same items as the builder with the settings the option block means".into(),
                });
            }
        }
    }
    // O5: the same invocation in rustc processes with other hash seeds; the
    // last one also reads a re-encoded document (permuted members, other white space)
    for (n, hs) in extra_hash_seeds.iter().enumerate() {
        if n + 1 == extra_hash_seeds.len() && extra_hash_seeds.len() > 1 {
            let mut rr = Rng::new(run.seed ^ 0xD0C);
            if let Some(re) = crate::procsim::reencode_json(&run.doc, &mut rr) {
                std::fs::write(dir.join("schema.json"), re).map_err(|e| e.to_string())?;
            }
        }
        // ... and every second one is started from the package directory itself
        // instead of the decoy directory (another working directory of the host process)
        let again = expand_from(tools, dir, "macro.rs", *hs, manifest, n % 2 == 1)?;
        out.expansions += 1;
        // compare without the include_str! anchor (it embeds the document's bytes,
        // which legitimately differ for the re-encoded document)
        let same = again.ok == m.ok
            && match (expanded_items(&again.stdout), expanded_items(&m.stdout)) {
                (Ok(a), Ok(b)) => a == b,
                _ => !m.ok, // a failed expansion prints no complete crate; the verdict (ok flag) is what is compared
            };
        if !same {
            out.violations.push(MacroViolation {
                oracle: "O5".into(),
                key: if aliasing {
                    "macro:O5:expansion-depends-on-hash-seed:aliasing-crates".into()
                } else {
                    "macro:O5:expansion-depends-on-hash-seed".into()
                },
                observed: format!("hash seeds {} vs {}: ok {} vs {}, expansion digests {:x} vs {:x}", run.hash_seed, hs, m.ok, again.ok, crate::prng::fnv64(m.stdout.as_bytes()), crate::prng::fnv64(again.stdout.as_bytes())),
                expected: "the expansion is the same in every rustc process".into(),
            });
            break;
        }
    }
    Ok(out)
}
