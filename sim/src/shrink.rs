//! Minimisation of a failing run description (delta debugging on the explicit
//! description, not on the seed). A candidate edit is kept only when the same
//! invariant with the same finding-key base still fails. All edits keep the
//! schemas inside the generator's fragment (they only remove things or
//! replace a subschema by a plain scalar).

use serde_json::{json, Value};

use crate::desc::RunDesc;
use crate::exec::{self, Violation};

pub type Target = (String, String); // (invariant, key base)

thread_local! {
    static HANGS: std::cell::Cell<u32> = const { std::cell::Cell::new(0) };
}

pub fn key_base(key: &str) -> String {
    // keys look like "<what>[:<how>]|<classes>"; the class part may shrink
    key.split('|').next().unwrap_or(key).to_string()
}

pub fn matches_target(v: &Violation, t: &Target) -> bool {
    // exact key: class attribution is done by the executor (isolation), so
    // the key of the culprit does not change while unrelated parts are removed
    v.invariant == t.0 && v.key == t.1
}

fn still_fails(desc_json: &Value, target: &Target, execs: &mut usize) -> Option<RunDesc> {
    let desc: RunDesc = serde_json::from_value(desc_json.clone()).ok()?;
    // ReAdd must point backwards at an existing op
    for (i, op) in desc.ops.iter().enumerate() {
        if let crate::desc::Op::ReAdd { of } = op {
            if *of >= i {
                return None;
            }
        }
    }
    *execs += 1;
    // candidates can drive typify into loops that never end (unbroken alias
    // cycles): run under the watchdog; a hung candidate is simply not accepted
    // (unless a hang is what is being minimised). The abandoned thread spins
    // until the process exits, so the number of hangs is bounded below.
    let (out, hung) = exec::execute_watched(&desc, std::time::Duration::from_secs(5));
    if hung {
        HANGS.with(|h| h.set(h.get() + 1));
    }
    if out.harness_error.is_some() {
        return None;
    }
    if out.violations.iter().any(|v| matches_target(v, target)) {
        Some(desc)
    } else {
        None
    }
}

/// Remove op `i` from an op list, fixing up ReAdd indices. Returns None when
/// a ReAdd pointed at the removed op (then that ReAdd is removed as well).
fn remove_op(ops: &[Value], i: usize) -> Vec<Value> {
    let mut out = Vec::new();
    for (j, op) in ops.iter().enumerate() {
        if j == i {
            continue;
        }
        let mut op = op.clone();
        if op.get("op") == Some(&json!("ReAdd")) {
            let of = op.get("of").and_then(|x| x.as_u64()).unwrap_or(0) as usize;
            if of == i {
                continue;
            }
            if of > i {
                op["of"] = json!(of - 1);
            }
        }
        out.push(op);
    }
    // a second pass: dropping a ReAdd above may have shifted nothing (it is later than its target)
    out
}

/// All fragment-preserving single edits of one schema, as replacement values.
fn schema_edits(s: &Value, out: &mut Vec<Value>, depth: u32) {
    let Some(o) = s.as_object() else { return };
    if depth > 6 {
        return;
    }
    // drop optional annotations / constraints
    for k in [
        "default",
        "additionalProperties",
        "title",
        "format",
        "minimum",
        "maxLength",
        "uniqueItems",
        "description",
    ] {
        if o.contains_key(k) {
            // dropping additionalProperties of a pure map would change its kind: keep it there
            if k == "additionalProperties" && !o.contains_key("properties") {
                continue;
            }
            let mut c = o.clone();
            c.remove(k);
            out.push(Value::Object(c));
        }
    }
    // drop a property (and its `required` entry)
    if let Some(Value::Object(props)) = o.get("properties") {
        for k in props.keys() {
            let mut c = o.clone();
            if let Some(Value::Object(p)) = c.get_mut("properties") {
                p.remove(k);
            }
            let mut drop_required = false;
            if let Some(Value::Array(req)) = c.get_mut("required") {
                req.retain(|r| r.as_str() != Some(k.as_str()));
                drop_required = req.is_empty();
            }
            if drop_required {
                c.remove("required");
            }
            // a default object may mention the property; leave it (validity is re-judged by the model)
            out.push(Value::Object(c));
        }
        // simplify / recurse into property schemas
        for (k, p) in props {
            let mut subs = Vec::new();
            if p.is_object() && p != &json!({"type": "boolean"}) {
                subs.push(json!({"type": "boolean"}));
            }
            schema_edits(p, &mut subs, depth + 1);
            for sub in subs {
                let mut c = o.clone();
                if let Some(Value::Object(pm)) = c.get_mut("properties") {
                    pm.insert(k.clone(), sub);
                }
                out.push(Value::Object(c));
            }
        }
    }
    // arrays of subschemas / values
    for key in ["oneOf", "anyOf", "enum"] {
        if let Some(Value::Array(items)) = o.get(key) {
            if items.len() > 1 {
                for i in 0..items.len() {
                    let mut c = o.clone();
                    if let Some(Value::Array(a)) = c.get_mut(key) {
                        a.remove(i);
                    }
                    out.push(Value::Object(c));
                }
            }
            if key != "enum" {
                for (i, it) in items.iter().enumerate() {
                    let mut subs = Vec::new();
                    schema_edits(it, &mut subs, depth + 1);
                    for sub in subs {
                        let mut c = o.clone();
                        if let Some(Value::Array(a)) = c.get_mut(key) {
                            a[i] = sub;
                        }
                        out.push(Value::Object(c));
                    }
                }
            }
        }
    }
    // items / additionalProperties subschemas
    for key in ["items", "additionalProperties"] {
        match o.get(key) {
            Some(it @ Value::Object(_)) => {
                let mut subs = Vec::new();
                if it != &json!({"type": "boolean"}) {
                    subs.push(json!({"type": "boolean"}));
                }
                schema_edits(it, &mut subs, depth + 1);
                for sub in subs {
                    let mut c = o.clone();
                    c.insert(key.to_string(), sub);
                    out.push(Value::Object(c));
                }
            }
            Some(Value::Array(its)) => {
                for (i, it) in its.iter().enumerate() {
                    let mut subs = Vec::new();
                    if it != &json!({"type": "boolean"}) {
                        subs.push(json!({"type": "boolean"}));
                    }
                    schema_edits(it, &mut subs, depth + 1);
                    for sub in subs {
                        let mut c = o.clone();
                        if let Some(Value::Array(a)) = c.get_mut(key) {
                            a[i] = sub;
                        }
                        out.push(Value::Object(c));
                    }
                }
            }
            _ => {}
        }
    }
}

/// Names of all definitions delivered anywhere in an op list.
fn def_names(ops: &[Value]) -> Vec<String> {
    let mut v = Vec::new();
    for op in ops {
        if let Some(Value::Array(defs)) = op.get("defs") {
            for d in defs {
                if let Some(n) = d.get(0).and_then(|n| n.as_str()) {
                    v.push(n.to_string());
                }
            }
        }
        if let Some(Value::Object(defs)) = op.get("doc").and_then(|d| d.get("definitions")) {
            v.extend(defs.keys().cloned());
        }
    }
    v.sort();
    v.dedup();
    v
}

fn drop_def(ops: &mut [Value], name: &str) {
    for op in ops.iter_mut() {
        if let Some(Value::Array(defs)) = op.get_mut("defs") {
            defs.retain(|d| d.get(0).and_then(|n| n.as_str()) != Some(name));
        }
        if let Some(Value::Object(defs)) = op.get_mut("doc").and_then(|d| d.get_mut("definitions")) {
            defs.remove(name);
        }
    }
}

fn edit_def(ops: &mut [Value], name: &str, new: &Value) {
    for op in ops.iter_mut() {
        if let Some(Value::Array(defs)) = op.get_mut("defs") {
            for d in defs.iter_mut() {
                if d.get(0).and_then(|n| n.as_str()) == Some(name) {
                    d[1] = new.clone();
                }
            }
        }
        if let Some(Value::Object(defs)) = op.get_mut("doc").and_then(|d| d.get_mut("definitions")) {
            if defs.contains_key(name) {
                defs.insert(name.to_string(), new.clone());
            }
        }
    }
}

fn get_def(ops: &[Value], name: &str) -> Option<Value> {
    for op in ops {
        if let Some(Value::Array(defs)) = op.get("defs") {
            for d in defs {
                if d.get(0).and_then(|n| n.as_str()) == Some(name) {
                    return d.get(1).cloned();
                }
            }
        }
        if let Some(Value::Object(defs)) = op.get("doc").and_then(|d| d.get("definitions")) {
            if let Some(s) = defs.get(name) {
                return Some(s.clone());
            }
        }
    }
    None
}

pub struct ShrinkStats {
    pub executions: usize,
    pub accepted: usize,
}

/// Minimise `desc` for `target`. `max_execs` bounds the work.
pub fn shrink(desc: &RunDesc, target: &Target, max_execs: usize) -> (RunDesc, ShrinkStats) {
    let mut cur = serde_json::to_value(desc).unwrap();
    let mut execs = 0usize;
    let mut accepted = 0usize;
    let is_relation = target.0.starts_with('H');
    macro_rules! try_candidate {
        ($cand:expr) => {{
            let cand: Value = $cand;
            if execs < max_execs && cand != cur && HANGS.with(|h| h.get()) < 3 {
                if still_fails(&cand, target, &mut execs).is_some() {
                    cur = cand;
                    accepted += 1;
                    true
                } else {
                    false
                }
            } else {
                false
            }
        }};
    }
    HANGS.with(|h| h.set(0));
    let mut progress = true;
    while progress && execs < max_execs && HANGS.with(|h| h.get()) < 3 {
        progress = false;
        // 0. drop the variant when the target is a step invariant
        if !is_relation && cur.get("variant").map(|v| !v.is_null()).unwrap_or(false) {
            let mut c = cur.clone();
            c.as_object_mut().unwrap().remove("variant");
            progress |= try_candidate!(c);
        }
        // 1. settings to defaults
        for k in ["patches", "replaces", "derives"] {
            if cur["settings"].get(k).and_then(|x| x.as_array()).map(|a| !a.is_empty()).unwrap_or(false) {
                let mut c = cur.clone();
                c["settings"][k] = json!([]);
                progress |= try_candidate!(c);
            }
        }
        for k in ["type_mod", "map_type"] {
            if !cur["settings"][k].is_null() {
                let mut c = cur.clone();
                c["settings"][k] = Value::Null;
                progress |= try_candidate!(c);
            }
        }
        if cur["settings"]["struct_builder"] == json!(true) {
            let mut c = cur.clone();
            c["settings"]["struct_builder"] = json!(false);
            progress |= try_candidate!(c);
        }
        if cur.get("decoy").and_then(|d| d.as_u64()).unwrap_or(0) != 0 {
            let mut c = cur.clone();
            c["decoy"] = json!(0);
            progress |= try_candidate!(c);
        }
        // 2. drop ops (from the end, so that ReAdd indices stay simple)
        for list in ["ops", "variant"] {
            let ops_now: Vec<Value> = if list == "ops" {
                cur["ops"].as_array().cloned().unwrap_or_default()
            } else {
                cur.get("variant")
                    .and_then(|v| v.get("ops"))
                    .and_then(|o| o.as_array())
                    .cloned()
                    .unwrap_or_default()
            };
            let mut i = ops_now.len();
            while i > 0 {
                i -= 1;
                let ops_cur: Vec<Value> = if list == "ops" {
                    cur["ops"].as_array().cloned().unwrap_or_default()
                } else {
                    cur["variant"]["ops"].as_array().cloned().unwrap_or_default()
                };
                if i >= ops_cur.len() {
                    continue;
                }
                let new_ops = remove_op(&ops_cur, i);
                let mut c = cur.clone();
                if list == "ops" {
                    c["ops"] = Value::Array(new_ops);
                } else {
                    c["variant"]["ops"] = Value::Array(new_ops);
                }
                progress |= try_candidate!(c);
            }
        }
        // 3. drop definitions (everywhere they are delivered, base and variant)
        let mut all_ops: Vec<Value> = cur["ops"].as_array().cloned().unwrap_or_default();
        if let Some(v) = cur.get("variant").and_then(|v| v.get("ops")).and_then(|o| o.as_array()) {
            all_ops.extend(v.iter().cloned());
        }
        for name in def_names(&all_ops) {
            let mut c = cur.clone();
            if let Some(a) = c["ops"].as_array_mut() {
                drop_def(a, &name);
            }
            if let Some(a) = c.get_mut("variant").and_then(|v| v.get_mut("ops")).and_then(|o| o.as_array_mut()) {
                drop_def(a, &name);
            }
            progress |= try_candidate!(c);
        }
        // 4. simplify definitions
        let mut all_ops: Vec<Value> = cur["ops"].as_array().cloned().unwrap_or_default();
        if let Some(v) = cur.get("variant").and_then(|v| v.get("ops")).and_then(|o| o.as_array()) {
            all_ops.extend(v.iter().cloned());
        }
        for name in def_names(&all_ops) {
            let mut round = 0;
            loop {
                round += 1;
                let ops_now: Vec<Value> = {
                    let mut v = cur["ops"].as_array().cloned().unwrap_or_default();
                    if let Some(x) = cur.get("variant").and_then(|v| v.get("ops")).and_then(|o| o.as_array()) {
                        v.extend(x.iter().cloned());
                    }
                    v
                };
                let Some(schema) = get_def(&ops_now, &name) else { break };
                let mut edits = Vec::new();
                schema_edits(&schema, &mut edits, 0);
                let mut any = false;
                for e in edits {
                    let mut c = cur.clone();
                    if let Some(a) = c["ops"].as_array_mut() {
                        edit_def(a, &name, &e);
                    }
                    if let Some(a) = c.get_mut("variant").and_then(|v| v.get_mut("ops")).and_then(|o| o.as_array_mut()) {
                        edit_def(a, &name, &e);
                    }
                    if try_candidate!(c) {
                        any = true;
                        progress = true;
                        break; // edits were computed against the old schema
                    }
                }
                if !any || round > 40 || execs >= max_execs {
                    break;
                }
            }
        }
        // 5. simplify add_type schemas and root documents' own properties
        for list in ["ops", "variant"] {
            let n = if list == "ops" {
                cur["ops"].as_array().map(|a| a.len()).unwrap_or(0)
            } else {
                cur.get("variant").and_then(|v| v.get("ops")).and_then(|o| o.as_array()).map(|a| a.len()).unwrap_or(0)
            };
            for i in 0..n {
                let mut round = 0;
                loop {
                    round += 1;
                    let op = if list == "ops" {
                        cur["ops"][i].clone()
                    } else {
                        cur["variant"]["ops"][i].clone()
                    };
                    let field = if op.get("op") == Some(&json!("AddType")) {
                        "schema"
                    } else if op.get("op") == Some(&json!("AddRootSchema")) && op["doc"].get("title").is_some() {
                        "doc"
                    } else {
                        break;
                    };
                    let mut edits = Vec::new();
                    if field == "doc" {
                        // only the root's own properties; definitions are handled above
                        let mut root = op["doc"].clone();
                        let defs = root.as_object_mut().and_then(|o| o.remove("definitions"));
                        let mut es = Vec::new();
                        schema_edits(&root, &mut es, 0);
                        for mut e in es {
                            if e.get("title").is_none() {
                                continue; // an untitled root is a different op shape
                            }
                            if let (Some(d), Some(o)) = (&defs, e.as_object_mut()) {
                                o.insert("definitions".into(), d.clone());
                            }
                            edits.push(e);
                        }
                    } else {
                        schema_edits(&op[field], &mut edits, 0);
                    }
                    let mut any = false;
                    for e in edits {
                        let mut c = cur.clone();
                        if list == "ops" {
                            c["ops"][i][field] = e;
                        } else {
                            c["variant"]["ops"][i][field] = e;
                        }
                        if try_candidate!(c) {
                            any = true;
                            progress = true;
                            break;
                        }
                    }
                    if !any || round > 40 || execs >= max_execs {
                        break;
                    }
                }
            }
        }
        // 6. hints
        let n = cur["ops"].as_array().map(|a| a.len()).unwrap_or(0);
        for i in 0..n {
            if cur["ops"][i].get("op") == Some(&json!("AddType")) && !cur["ops"][i]["hint"].is_null() {
                let schema = &cur["ops"][i]["schema"];
                // objects and enums need a name; only drop hints of nameless-capable schemas
                if schema.get("type") != Some(&json!("object")) && schema.get("enum").is_none() {
                    let mut c = cur.clone();
                    c["ops"][i]["hint"] = Value::Null;
                    progress |= try_candidate!(c);
                }
            }
        }
    }
    let final_desc: RunDesc = serde_json::from_value(cur).expect("shrunk description deserialises");
    (
        final_desc,
        ShrinkStats {
            executions: execs,
            accepted,
        },
    )
}
