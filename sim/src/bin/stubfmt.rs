//! verif-stubfmt: stands in for rustfmt behind rustfmt-wrapper's RUSTFMT seam.
//! Behaviour is selected by VERIF_STUBFMT_MODE (set by procsim per run).
use std::io::{Read, Write};
use std::process::{Command, Stdio};

fn main() {
    let mode = std::env::var("VERIF_STUBFMT_MODE").unwrap_or_default();
    match mode.as_str() {
        "fmt-exit1" => {
            let mut buf = Vec::new();
            let _ = std::io::stdin().read_to_end(&mut buf);
            eprintln!("error: stub formatter: simulated formatting failure");
            std::process::exit(1);
        }
        "fmt-close-stdin" => {
            // never read: the writer thread of rustfmt-wrapper gets EPIPE
            unsafe {
                libc::close(0);
            }
            std::thread::sleep(std::time::Duration::from_millis(30));
            eprintln!("error: stub formatter: stdin closed early");
            std::process::exit(1);
        }
        "fmt-killed" => {
            let mut buf = [0u8; 512];
            let _ = std::io::stdin().read(&mut buf);
            let _ = std::io::stdout().write_all(b"pub struct Torn {");
            let _ = std::io::stdout().flush();
            unsafe {
                libc::kill(libc::getpid(), libc::SIGKILL);
            }
        }
        _ => {
            // fmt-slow: the real formatter, late
            let real = std::env::var("VERIF_STUBFMT_REAL").expect("VERIF_STUBFMT_REAL");
            let mut input = Vec::new();
            let _ = std::io::stdin().read_to_end(&mut input);
            std::thread::sleep(std::time::Duration::from_millis(250));
            let mut child = Command::new(real)
                .args(std::env::args().skip(1))
                .stdin(Stdio::piped())
                .stdout(Stdio::inherit())
                .stderr(Stdio::inherit())
                .spawn()
                .expect("spawn real rustfmt");
            let mut si = child.stdin.take().unwrap();
            let _ = si.write_all(&input);
            drop(si);
            let st = child.wait().expect("wait");
            std::process::exit(st.code().unwrap_or(1));
        }
    }
}
