//! procsim — process-level simulator for the real cargo-typify binary.
//!
//!   procsim check <C15|C12> [--tier quick|thorough] [--seed N] [--runs N]
//!   procsim replay <file>
//!   procsim one <seed> [--faults]
use std::collections::{BTreeMap, BTreeSet};
use std::path::PathBuf;
use std::sync::Mutex;
use std::time::Instant;

use serde::{Deserialize, Serialize};
use serde_json::{json, Value};
use verifsim::procsim::*;
use verifsim::prng::{derive_seed, fnv64};
use verifsim::report::{self, Evidence};

fn flag(args: &[String], name: &str) -> Option<String> {
    args.iter().position(|a| a == name).and_then(|i| args.get(i + 1).cloned())
}

#[derive(Serialize, Deserialize, Clone, Debug)]
struct CliReplay {
    property: String,
    engine: String,
    invariant: String,
    finding_key: String,
    observed: String,
    expected: String,
    run: CliRun,
    /// for O5: the second run whose output must equal the first one's
    #[serde(default)]
    twin: Option<CliRun>,
    observation: CliObservation,
}

struct RunResult {
    index: u64,
    run: CliRun,
    obs: CliObservation,
    violations: Vec<CliViolation>,
    reference_ok: bool,
}

fn reference_cached(cache: &Mutex<BTreeMap<u64, Result<String, String>>>, run: &CliRun) -> Result<String, String> {
    let key = fnv64(format!("{}|{}", run.doc, serde_json::to_string(&run.options).unwrap()).as_bytes());
    if let Some(r) = cache.lock().unwrap().get(&key) {
        return r.clone();
    }
    let r = reference_tokens(&run.doc, &run.options);
    cache.lock().unwrap().insert(key, r.clone());
    r
}

fn formatted(tokens: &str) -> Option<String> {
    rustfmt_wrapper::rustfmt(format!("{INTRO}\n{tokens}")).ok()
}

fn crate_feature(o: &CliOptions) -> String {
    let mut f = BTreeSet::new();
    for c in &o.crates {
        for n in std::iter::once(&c.name).chain(c.rename.iter()) {
            if n.chars().any(|ch| ch.is_ascii_digit()) {
                f.insert("digit");
            }
            if n.contains('-') {
                f.insert("hyphen");
            }
            if n.contains('_') {
                f.insert("underscore");
            }
        }
        if c.version.contains('-') {
            f.insert("prerelease");
        }
    }
    if f.is_empty() {
        "plain".into()
    } else {
        f.into_iter().collect::<Vec<_>>().join("+")
    }
}

fn run_and_judge(
    run: &CliRun,
    tools: &Tools,
    work: &std::path::Path,
    cache: &Mutex<BTreeMap<u64, Result<String, String>>>,
    byte_level: bool,
) -> Result<(CliObservation, Vec<CliViolation>, bool), String> {
    let reference = reference_cached(cache, run);
    let (obs, before) = execute_cli(run, tools, work)?;
    let _ = byte_level;
    // The comparable form of the reference is what the same formatter makes of
    // header + builder tokens (rustfmt rewrites more than white space: trailing
    // commas, closure braces). Needed whenever the run may legitimately exit 0.
    let fr = if obs.exit_code == 0 && !run.fault.is_upstream() {
        match &reference {
            Ok(t) => Some(formatted(t).ok_or_else(|| "reference formatter failed".to_string())?),
            Err(_) => None,
        }
    } else {
        None
    };
    let mut v = judge(run, &obs, &before, &reference, fr.as_deref());
    // O4: a rejected crate specifier gets its own key
    if obs.exit_code == 2 && obs.stderr_tail.contains("--crate") {
        for x in v.iter_mut() {
            if x.key.starts_with("cli:failed") {
                x.oracle = "O4".into();
                x.key = format!("cli:crate-spec-rejected:{}", crate_feature(&run.options));
                x.expected = "every valid [rename=]crate@version specifier is accepted".into();
            }
        }
    }
    Ok((obs, v, reference.is_ok()))
}

fn shrink_cli(
    run: &CliRun,
    key: &str,
    tools: &Tools,
    work: &std::path::Path,
    cache: &Mutex<BTreeMap<u64, Result<String, String>>>,
) -> CliRun {
    let mut cur = run.clone();
    let still = |cand: &CliRun| -> bool {
        match run_and_judge(cand, tools, work, cache, true) {
            Ok((_, v, _)) => v.iter().any(|x| x.key == key),
            Err(_) => false,
        }
    };
    let mut progress = true;
    let mut budget = 60;
    while progress && budget > 0 {
        progress = false;
        let mut cands: Vec<CliRun> = Vec::new();
        for i in 0..cur.options.crates.len() {
            let mut c = cur.clone();
            c.options.crates.remove(i);
            cands.push(c);
        }
        for i in 0..cur.options.derives.len() {
            let mut c = cur.clone();
            c.options.derives.remove(i);
            cands.push(c);
        }
        for i in 0..cur.options.crates.len() {
            if cur.options.crates[i].rename.is_some() {
                let mut c = cur.clone();
                c.options.crates[i].rename = None;
                cands.push(c);
            }
        }
        if cur.options.map_type.is_some() {
            let mut c = cur.clone();
            c.options.map_type = None;
            cands.push(c);
        }
        if cur.options.unknown_crates.is_some() {
            let mut c = cur.clone();
            c.options.unknown_crates = None;
            cands.push(c);
        }
        if cur.options.builder.is_some() {
            let mut c = cur.clone();
            c.options.builder = None;
            cands.push(c);
        }
        if !cur.env.is_empty() {
            let mut c = cur.clone();
            c.env.clear();
            cands.push(c);
        }
        if cur.input_name != "in.json" {
            let mut c = cur.clone();
            c.input_name = "in.json".into();
            cands.push(c);
        }
        if cur.absolute_input {
            let mut c = cur.clone();
            c.absolute_input = false;
            cands.push(c);
        }
        if cur.preexisting_target {
            let mut c = cur.clone();
            c.preexisting_target = false;
            cands.push(c);
        }
        if cur.doc_name != "min" {
            let mut c = cur.clone();
            c.doc_name = "min".into();
            c.doc = r#"{"$schema":"http://json-schema.org/draft-07/schema#","title":"Min","type":"object","properties":{"a":{"type":"string"}}}"#.into();
            // a fault that is positioned inside the document stays inside the smaller one
            match &mut c.fault {
                Fault::InputTruncated { at } | Fault::InputBadUtf8 { at } => *at = std::cmp::min(*at, c.doc.len() / 2),
                _ => {}
            }
            cands.push(c);
        }
        for c in cands {
            budget -= 1;
            if budget <= 0 {
                break;
            }
            if still(&c) {
                cur = c;
                progress = true;
                break;
            }
        }
    }
    cur
}

fn replay_cmd(path: &str) -> i32 {
    let text = match std::fs::read_to_string(path) {
        Ok(t) => t,
        Err(e) => {
            eprintln!("HARNESS: cannot read {path}: {e}");
            return 2;
        }
    };
    let r: CliReplay = match serde_json::from_str(&text) {
        Ok(r) => r,
        Err(e) => {
            eprintln!("HARNESS: {path} is not a procsim replay file: {e}");
            return 2;
        }
    };
    let tools = match Tools::locate() {
        Ok(t) => t,
        Err(e) => {
            eprintln!("HARNESS: {e}");
            return 2;
        }
    };
    let work = report::verif_root().join(".work/procsim");
    let cache = Mutex::new(BTreeMap::new());
    let (obs, mut v, _) = match run_and_judge(&r.run, &tools, &work, &cache, true) {
        Ok(x) => x,
        Err(e) => {
            eprintln!("HARNESS: {e}");
            return 2;
        }
    };
    println!("argv: cargo-typify typify {} {}", r.run.input_name, r.run.options.argv().join(" "));
    println!("fault: {:?}", r.run.fault);
    println!("exit={} stdout={}B files={:?}", obs.exit_code, obs.stdout_len, obs.files_after);
    for l in &obs.io_log {
        println!("  io: {l}");
    }
    if let Some(twin) = &r.twin {
        match execute_cli(twin, &tools, &work) {
            Ok((o2, _)) => {
                if o2.exit_code != obs.exit_code || o2.stdout != obs.stdout || o2.target_bytes != obs.target_bytes {
                    v.push(CliViolation {
                        oracle: "O5".into(),
                        key: "cli:O5:output-depends-on-process-environment".into(),
                        observed: "outputs differ".into(),
                        expected: String::new(),
                    });
                }
            }
            Err(e) => {
                eprintln!("HARNESS: {e}");
                return 2;
            }
        }
    }
    if let Some(x) = v.iter().find(|x| x.key == r.finding_key) {
        println!("REPRODUCED {} {}: {}", x.oracle, x.key, x.observed);
        println!("VIOLATION property={} replay={}", r.property, path);
        1
    } else {
        println!("NOT-REPRODUCED {}", r.finding_key);
        for x in &v {
            println!("  (other: {} {})", x.oracle, x.key);
        }
        0
    }
}

fn main() {
    std::panic::set_hook(Box::new(|_| {}));
    let args: Vec<String> = std::env::args().collect();
    let cmd = args.get(1).map(|s| s.as_str()).unwrap_or("");
    // the reference formatter is the same binary the CLI is pointed at
    match find_rustfmt() {
        Ok(p) => std::env::set_var("RUSTFMT", p),
        Err(e) => {
            eprintln!("HARNESS: {e}");
            std::process::exit(2);
        }
    }
    let work = report::verif_root().join(".work/procsim");
    let _ = std::fs::create_dir_all(work.join("reftmp"));
    std::env::set_var("TMPDIR", work.join("reftmp"));
    match cmd {
        "replay" => std::process::exit(replay_cmd(&args[2])),
        "replay-macro" => std::process::exit(replay_macro_cmd(&args[2])),
        "one" => {
            let seed: u64 = args[2].parse().unwrap();
            let faults = args.iter().any(|a| a == "--faults");
            let tools = Tools::locate().unwrap();
            let corpus = fixture_corpus();
            let run = gen_cli_run(seed, &corpus, faults);
            let cache = Mutex::new(BTreeMap::new());
            let mut shown = run.clone();
            shown.doc = format!("<{} bytes>", run.doc.len());
            println!("{}", serde_json::to_string_pretty(&shown).unwrap());
            let (obs, v, _) = run_and_judge(&run, &tools, &work, &cache, true).unwrap();
            println!("{}", serde_json::to_string_pretty(&obs).unwrap());
            println!("{}", serde_json::to_string_pretty(&v).unwrap());
        }
        "check" => {
            let prop = args.get(2).cloned().unwrap_or_default();
            let tier = flag(&args, "--tier").or_else(|| std::env::var("VERIF_TIER").ok()).unwrap_or_else(|| "quick".into());
            let seed: u64 = flag(&args, "--seed")
                .or_else(|| std::env::var("VERIF_SEED").ok())
                .and_then(|s| s.parse().ok())
                .unwrap_or(20261002);
            let runs: Option<u64> = flag(&args, "--runs").and_then(|s| s.parse().ok());
            std::process::exit(check(&prop, &tier, seed, runs));
        }
        _ => {
            eprintln!("usage: procsim check <C15|C12> [--tier t] [--seed n] | replay <file> | one <seed> [--faults]");
            std::process::exit(2);
        }
    }
}

fn check(property: &str, tier: &str, base_seed: u64, runs_override: Option<u64>) -> i32 {
    let t0 = Instant::now();
    let tools = match Tools::locate() {
        Ok(t) => t,
        Err(e) => {
            eprintln!("HARNESS: {e}");
            return 2;
        }
    };
    let work = report::verif_root().join(".work/procsim");
    let corpus = fixture_corpus();
    if corpus.len() < 5 {
        eprintln!("HARNESS: fixture corpus not found under /repo");
        return 2;
    }
    let m: u64 = if tier == "thorough" { 12 } else { 1 };
    // (stage name, faults, runs, stream)
    let stages: Vec<(&str, bool, u64, u64)> = match property {
        "C15" => vec![("cli-fault-free", false, 900 * m, 21), ("cli-faults", true, 2200 * m, 22)],
        "C12" => vec![("cli-process-environment", false, 320 * m, 23)],
        _ => {
            eprintln!("HARNESS: procsim has no check for {property}");
            return 2;
        }
    };
    println!("VERIF_SEED={base_seed} property={property} tier={tier} engine=procsim");
    let known = report::load_known_findings();
    let cache: Mutex<BTreeMap<u64, Result<String, String>>> = Mutex::new(BTreeMap::new());
    let mut total = 0u64;
    let mut distinct: BTreeSet<u64> = BTreeSet::new();
    let mut faults_fired: BTreeMap<String, u64> = BTreeMap::new();
    let mut faults_planned: BTreeMap<String, u64> = BTreeMap::new();
    let mut io_fault_index: BTreeMap<String, u64> = BTreeMap::new();
    let mut exit_codes: BTreeMap<String, u64> = BTreeMap::new();
    let mut groups: BTreeMap<String, (usize, u64)> = BTreeMap::new(); // key -> (index into `firsts`, count)
    let mut firsts: Vec<(CliRun, Option<CliRun>, CliObservation, CliViolation)> = Vec::new();
    let mut samples: Vec<Value> = Vec::new();
    let mut stage_info = Vec::new();
    let mut harness_errors: Vec<String> = Vec::new();
    let mut docs_used: BTreeSet<String> = BTreeSet::new();
    let mut builder_rejects = 0u64;
    let mut hash_seeds: BTreeSet<u64> = BTreeSet::new();

    for (name, faults, n, stream) in &stages {
        let n = runs_override.unwrap_or(*n);
        let ts = Instant::now();
        let results: Mutex<Vec<RunResult>> = Mutex::new(Vec::new());
        let twins: Mutex<Vec<(u64, CliRun, CliRun, CliObservation, bool)>> = Mutex::new(Vec::new());
        let errs: Mutex<Vec<String>> = Mutex::new(Vec::new());
        std::thread::scope(|sc| {
            for w in 0..16u64 {
                let tools = &tools;
                let corpus = &corpus;
                let cache = &cache;
                let results = &results;
                let errs = &errs;
                let twins = &twins;
                let work = &work;
                sc.spawn(move || {
                    let mut i = w;
                    while i < n {
                        let seed = derive_seed(base_seed, *stream, i);
                        let run = gen_cli_run(seed, corpus, *faults);
                        match run_and_judge(&run, tools, work, cache, *faults == false) {
                            Ok((obs, v, rok)) => {
                                if property == "C12" {
                                    // O5: the same workload in another process environment
                                    let mut twin = run.clone();
                                    twin.hash_seed = run.hash_seed ^ 0x5555_5555_5555;
                                    twin.env.insert("TZ".into(), "Pacific/Chatham".into());
                                    twin.env.insert("LANG".into(), "de_DE.UTF-8".into());
                                    if !twin.env.contains_key("RUST_LOG") {
                                        twin.env.insert("RUST_LOG".into(), "trace".into());
                                    }
                                    twin.absolute_input = !run.absolute_input;
                                    // the directory the tool is started from carries formatter
                                    // and toolchain configuration of some unrelated project
                                    twin.cwd_files.insert("rustfmt.toml".into(), "hard_tabs = true\nmax_width = 60\nnewline_style = \"Windows\"\n".into());
                                    twin.cwd_files.insert(".rustfmt.toml".into(), "tab_spaces = 2\n".into());
                                    // same content, other bytes: permuted object members, other white space
                                    let mut rr = verifsim::prng::Rng::new(seed ^ 0xD0C);
                                    if let Some(re) = reencode_json(&run.doc, &mut rr) {
                                        twin.doc = re;
                                    }
                                    match execute_cli(&twin, tools, work) {
                                        Ok((o2, _)) => {
                                            let same = o2.exit_code == obs.exit_code && o2.stdout == obs.stdout && o2.target_bytes == obs.target_bytes;
                                            twins.lock().unwrap().push((i, run.clone(), twin, obs.clone(), same));
                                        }
                                        Err(e) => errs.lock().unwrap().push(e),
                                    }
                                }
                                results.lock().unwrap().push(RunResult { index: i, run, obs, violations: v, reference_ok: rok });
                            }
                            Err(e) => errs.lock().unwrap().push(format!("seed {seed}: {e}")),
                        }
                        i += 16;
                    }
                });
            }
        });
        harness_errors.extend(errs.into_inner().unwrap());
        let mut res = results.into_inner().unwrap();
        res.sort_by_key(|r| r.index);
        let mut tw = twins.into_inner().unwrap();
        tw.sort_by_key(|t| t.0);
        for r in &res {
            total += 1;
            docs_used.insert(r.run.doc_name.clone());
            hash_seeds.insert(r.run.hash_seed);
            if !r.reference_ok {
                builder_rejects += 1;
            }
            distinct.insert(fnv64(r.run.shape().as_bytes()));
            *exit_codes.entry(r.obs.exit_code.to_string()).or_insert(0) += 1;
            if !matches!(r.run.fault, Fault::None) {
                *faults_planned.entry(r.run.fault.name().to_string()).or_insert(0) += 1;
                if r.obs.fault_fired {
                    *faults_fired.entry(r.run.fault.name().to_string()).or_insert(0) += 1;
                }
                match &r.run.fault {
                    Fault::OutWrite { k, .. } | Fault::StdoutWrite { k, .. } | Fault::OutEintr { k } | Fault::InputEio { k } | Fault::OutTornThenError { k, .. } => {
                        if r.obs.fault_fired {
                            *io_fault_index.entry(format!("{}#{k}", r.run.fault.name())).or_insert(0) += 1;
                        }
                    }
                    _ => {}
                }
            }
            let relevant = |_x: &CliViolation| -> bool {
                match property {
                    "C15" => true,
                    _ => false, // C12 only judges O5 below
                }
            };
            for x in r.violations.iter().filter(|x| relevant(x)) {
                match groups.get_mut(&x.key) {
                    Some(g) => g.1 += 1,
                    None => {
                        firsts.push((r.run.clone(), None, r.obs.clone(), x.clone()));
                        groups.insert(x.key.clone(), (firsts.len() - 1, 1));
                    }
                }
            }
        }
        for (_, run, twin, obs, same) in &tw {
            hash_seeds.insert(twin.hash_seed);
            if !*same {
                let key = "cli:O5:output-depends-on-process-environment".to_string();
                let x = CliViolation {
                    oracle: "O5".into(),
                    key: key.clone(),
                    observed: format!("same document and options; hash seed {} vs {}, env {:?} vs {:?}, files in the working directory {:?} vs {:?}: exit code / stdout / target differ", run.hash_seed, twin.hash_seed, run.env, twin.env, run.cwd_files.keys().collect::<Vec<_>>(), twin.cwd_files.keys().collect::<Vec<_>>()),
                    expected: "identical bytes in every process".into(),
                };
                match groups.get_mut(&key) {
                    Some(g) => g.1 += 1,
                    None => {
                        firsts.push((run.clone(), Some(twin.clone()), obs.clone(), x));
                        groups.insert(key, (firsts.len() - 1, 1));
                    }
                }
            }
        }
        for r in res.iter().take(2) {
            samples.push(json!({
                "stage": name, "seed": r.run.seed, "doc": r.run.doc_name, "input": r.run.input_name,
                "argv": r.run.options.argv(), "out": r.run.out, "fault": r.run.fault, "env": r.run.env,
                "hash_seed": r.run.hash_seed, "exit": r.obs.exit_code, "io_log": r.obs.io_log,
            }));
        }
        stage_info.push(json!({"stage": name, "faults": faults, "runs": res.len(), "wall_s": ts.elapsed().as_secs_f64()}));
    }
    if !harness_errors.is_empty() {
        for h in harness_errors.iter().take(8) {
            eprintln!("HARNESS: {h}");
        }
        return 2;
    }
    // ---- triage
    let mut exit_code = 0;
    let mut n_viol = 0u64;
    let mut known_lines = BTreeSet::new();
    for (key, (fi, count)) in &groups {
        let (run, twin, obs, x) = &firsts[*fi];
        if let Some(k) = report::match_known(&known, property, &x.oracle, key) {
            known_lines.insert(format!("KNOWN-FINDING: property={property} {}:{} — {} ({} runs)", x.oracle, key, k.what, count));
            continue;
        }
        let min = if twin.is_none() { shrink_cli(run, key, &tools, &work, &cache) } else { run.clone() };
        let mut twin_min = twin.clone();
        let _ = &mut twin_min;
        let rf = CliReplay {
            property: property.to_string(),
            engine: "procsim".into(),
            invariant: x.oracle.clone(),
            finding_key: key.clone(),
            observed: x.observed.clone(),
            expected: x.expected.clone(),
            run: min,
            twin: twin_min,
            observation: obs.clone(),
        };
        let dir = report::verif_root().join("replays");
        let _ = std::fs::create_dir_all(&dir);
        let safe: String = key.chars().map(|c| if c.is_ascii_alphanumeric() || c == '-' { c } else { '_' }).take(70).collect();
        let path: PathBuf = dir.join(format!("{property}-{safe}-{}.json", run.seed));
        if std::fs::write(&path, serde_json::to_string_pretty(&rf).unwrap()).is_err() {
            eprintln!("HARNESS: cannot write {}", path.display());
            return 2;
        }
        // verify in a fresh process
        let exe = std::env::current_exe().unwrap();
        let out = std::process::Command::new(exe).arg("replay").arg(&path).output();
        match out {
            Ok(o) if o.status.code() == Some(1) => {
                n_viol += 1;
                exit_code = 1;
                println!("violation {}:{} ({} runs, first seed {}): {}", x.oracle, key, count, run.seed, x.observed.chars().take(300).collect::<String>());
                println!("VIOLATION property={property} replay={}", path.display());
            }
            Ok(o) => {
                eprintln!("HARNESS: replay of {} did not reproduce (exit {:?}):\n{}", path.display(), o.status.code(), String::from_utf8_lossy(&o.stdout));
                return 2;
            }
            Err(e) => {
                eprintln!("HARNESS: cannot spawn replay: {e}");
                return 2;
            }
        }
    }
    for l in &known_lines {
        println!("{l}");
    }
    // ---- macro half
    let mac = match check_macro(property, tier, base_seed, runs_override) {
        Ok(m) => m,
        Err(e) => {
            eprintln!("HARNESS: {e}");
            return 2;
        }
    };
    for l in &mac.known_lines {
        println!("{l}");
    }
    if mac.exit_code != 0 {
        exit_code = mac.exit_code;
    }
    n_viol += mac.n_viol;
    total += mac.evaluations;
    let distinct_total = distinct.len() as u64 + mac.distinct;
    samples.extend(mac.samples.clone());
    let wall = t0.elapsed().as_secs_f64();
    let mut ev = Evidence {
        property_id: property.to_string(),
        tier: tier.to_string(),
        seed: base_seed,
        level: if property == "C15" { "fault_enumeration".into() } else { "exploration".into() },
        evaluations: total,
        distinct_nontrivial: distinct_total,
        rule: "one evaluation = one execution of the real cargo-typify binary in a private directory under the LD_PRELOAD shim (owned hash seed, I/O op log, optional fault plan) with a seeded document (repository fixture or generated x-rust-type document), option set, output mode, input name, environment and fault; judged against the builder API run in the harness process for the settings the options mean. Every run is non-trivial (a full conversion is attempted); distinct = distinct (document, output mode, argv, fault kind, input name) tuples, counted in a set. Macro half: one evaluation = one import_types! invocation (seeded document and option block) expanded by real rustc under 2-4 hash seeds plus the expansion of the builder's tokens for the settings the block means; distinct = distinct (document, invocation text)".into(),
        samples,
        wall_s: wall,
        violations: n_viol,
        assumptions: vec![
            "the formatter of fault-free runs is toolchain 1.80.1's rustfmt, for the CLI and for the reference alike".into(),
            "faults are injected at libc entry points (open*/read/write); the kernel file system under the private directory is real".into(),
        ],
        extra: BTreeMap::new(),
    };
    ev.extra.insert("engine".into(), json!("procsim"));
    ev.extra.insert("stages".into(), json!(stage_info));
    ev.extra.insert("runs_per_hour".into(), json!((total as f64 / wall * 3600.0) as u64));
    ev.extra.insert("seeds".into(), json!({"base": base_seed, "count": total}));
    ev.extra.insert("simulated_time".into(), json!("no clock in typify; reported as process executions"));
    ev.extra.insert("fault_kinds_planned".into(), json!(faults_planned));
    ev.extra.insert("fault_kinds_fired".into(), json!(faults_fired));
    ev.extra.insert("io_ops_faulted_by_index".into(), json!(io_fault_index));
    ev.extra.insert("exit_codes".into(), json!(exit_codes));
    ev.extra.insert("documents_used".into(), json!(docs_used.len()));
    ev.extra.insert("documents_the_builder_rejects".into(), json!(builder_rejects));
    ev.extra.insert("distinct_hash_seeds".into(), json!(hash_seeds.len()));
    ev.extra.insert("finding_groups".into(), json!(groups.iter().map(|(k, (_, c))| json!({"key": k, "runs": c})).collect::<Vec<_>>()));
    ev.extra.insert("known_findings_matched".into(), json!(known_lines.len()));
    ev.extra.insert("macro".into(), mac.stats.clone());
    ev.extra.insert("components_real".into(), json!(["cargo-typify binary built from /repo", "rustfmt 1.80.1 (fault-free runs)", "kernel file system", "typify builder API as reference (in the harness process)"]));
    ev.extra.insert("components_stub".into(), json!(["verif-stubfmt in formatter-fault runs", "libc open/read/write/getrandom through the LD_PRELOAD shim"]));
    if ev.write().is_err() {
        eprintln!("HARNESS: cannot write evidence");
        return 2;
    }
    println!(
        "{} CLI executions, {} distinct workloads, faults fired {:?}, {:.1}s; {} new violation(s), {} known finding(s)",
        total,
        distinct.len(),
        faults_fired.values().sum::<u64>(),
        wall,
        n_viol,
        known_lines.len()
    );
    exit_code
}

// ------------------------------------------------------------------ macro half

#[derive(Serialize, Deserialize, Clone, Debug)]
struct MacroReplay {
    property: String,
    engine: String,
    invariant: String,
    finding_key: String,
    observed: String,
    expected: String,
    run: verifsim::macrosim::MacroRun,
    extra_hash_seeds: Vec<u64>,
    macro_source: String,
}

fn replay_macro_cmd(path: &str) -> i32 {
    use verifsim::macrosim::*;
    let text = match std::fs::read_to_string(path) {
        Ok(t) => t,
        Err(e) => {
            eprintln!("HARNESS: cannot read {path}: {e}");
            return 2;
        }
    };
    let r: MacroReplay = match serde_json::from_str(&text) {
        Ok(r) => r,
        Err(e) => {
            eprintln!("HARNESS: {path} is not a procsim macro replay file: {e}");
            return 2;
        }
    };
    let tools = match MacroTools::prepare() {
        Ok(t) => t,
        Err(e) => {
            eprintln!("HARNESS: {e}");
            return 2;
        }
    };
    let work = report::verif_root().join(".work/macro");
    let _ = std::fs::create_dir_all(&work);
    println!("{}", r.run.options.source("schema.json"));
    match execute_macro(&r.run, &tools, &work, &r.extra_hash_seeds) {
        Ok(o) => {
            println!("macro_ok={} builder_ok={} items={} expansions={}", o.macro_ok, o.builder_ok, o.items, o.expansions);
            if let Some(x) = o.violations.iter().find(|x| x.key == r.finding_key) {
                println!("REPRODUCED {} {}: {}", x.oracle, x.key, x.observed);
                println!("VIOLATION property={} replay={}", r.property, path);
                1
            } else {
                println!("NOT-REPRODUCED {}", r.finding_key);
                for x in &o.violations {
                    println!("  (other: {} {})", x.oracle, x.key);
                }
                0
            }
        }
        Err(e) => {
            eprintln!("HARNESS: {e}");
            2
        }
    }
}

struct MacroStageResult {
    exit_code: i32,
    evaluations: u64,
    distinct: u64,
    n_viol: u64,
    known_lines: BTreeSet<String>,
    stats: Value,
    samples: Vec<Value>,
}

fn shrink_macro(
    run: &verifsim::macrosim::MacroRun,
    key: &str,
    tools: &verifsim::macrosim::MacroTools,
    work: &std::path::Path,
    extra: &[u64],
) -> verifsim::macrosim::MacroRun {
    use verifsim::macrosim::*;
    let mut cur = run.clone();
    let still = |c: &MacroRun| -> bool {
        execute_macro(c, tools, work, extra).map(|o| o.violations.iter().any(|x| x.key == key)).unwrap_or(false)
    };
    let mut progress = true;
    let mut budget = 80;
    while progress && budget > 0 {
        progress = false;
        let mut cands: Vec<MacroRun> = Vec::new();
        macro_rules! drop_each {
            ($field:ident) => {
                for i in 0..cur.options.$field.len() {
                    let mut c = cur.clone();
                    c.options.$field.remove(i);
                    cands.push(c);
                }
            };
        }
        drop_each!(crates);
        drop_each!(derives);
        drop_each!(patches);
        drop_each!(replaces);
        drop_each!(converts);
        for f in 0..3 {
            let mut c = cur.clone();
            match f {
                0 if c.options.map_type.is_some() => c.options.map_type = None,
                1 if c.options.unknown_crates.is_some() => c.options.unknown_crates = None,
                2 if c.options.struct_builder.is_some() => c.options.struct_builder = None,
                _ => continue,
            }
            cands.push(c);
        }
        if cur.env_fault != "none" {
            let mut c = cur.clone();
            c.env_fault = "none".into();
            cands.push(c);
        }
        if cur.doc_name != "min" {
            let mut c = cur.clone();
            c.doc_name = "min".into();
            c.doc = r#"{"$schema":"http://json-schema.org/draft-07/schema#","title":"Min","type":"object","properties":{"a":{"type":"string"}}}"#.into();
            cands.push(c);
        }
        for c in cands {
            budget -= 1;
            if budget <= 0 {
                break;
            }
            if still(&c) {
                cur = c;
                progress = true;
                break;
            }
        }
    }
    cur
}

fn check_macro(property: &str, tier: &str, base_seed: u64, runs_override: Option<u64>) -> Result<MacroStageResult, String> {
    use verifsim::macrosim::*;
    let tools = MacroTools::prepare()?;
    let work = report::verif_root().join(".work/macro");
    std::fs::create_dir_all(&work).map_err(|e| e.to_string())?;
    let fixtures = fixture_corpus();
    let thorough = tier == "thorough";
    let (n, extra_n, stream): (u64, usize, u64) = match property {
        "C15" => (if thorough { 6000 } else { 800 }, 1, 31),
        _ => (if thorough { 2400 } else { 320 }, 3, 32),
    };
    let n = runs_override.map(|r| std::cmp::max(8, r / 4)).unwrap_or(n);
    let known = report::load_known_findings();
    let results: Mutex<Vec<(u64, MacroRun, Vec<u64>, MacroOutcome)>> = Mutex::new(Vec::new());
    let errs: Mutex<Vec<String>> = Mutex::new(Vec::new());
    let t0 = Instant::now();
    std::thread::scope(|sc| {
        for w in 0..16u64 {
            let tools = &tools;
            let fixtures = &fixtures;
            let results = &results;
            let errs = &errs;
            let work = &work;
            sc.spawn(move || {
                let mut i = w;
                while i < n {
                    let seed = derive_seed(base_seed, stream, i);
                    let run = gen_macro_run(seed, fixtures);
                    let extra: Vec<u64> = (0..extra_n as u64).map(|k| derive_seed(seed, 77, k) >> 1).collect();
                    match execute_macro(&run, tools, work, &extra) {
                        Ok(o) => results.lock().unwrap().push((i, run, extra, o)),
                        Err(e) => errs.lock().unwrap().push(format!("macro seed {seed}: {e}")),
                    }
                    i += 16;
                }
            });
        }
    });
    let errs = errs.into_inner().unwrap();
    if !errs.is_empty() {
        return Err(errs.into_iter().take(5).collect::<Vec<_>>().join("; "));
    }
    let mut res = results.into_inner().unwrap();
    res.sort_by_key(|r| r.0);
    let mut groups: BTreeMap<String, (usize, u64)> = BTreeMap::new();
    let mut expansions = 0u64;
    let mut both_ok = 0u64;
    let mut builder_rejects = 0u64;
    let mut aliasing = 0u64;
    let mut distinct: BTreeSet<u64> = BTreeSet::new();
    let mut option_kinds: BTreeMap<String, u64> = BTreeMap::new();
    let mut env_faults: BTreeMap<String, u64> = BTreeMap::new();
    for (idx, (_, run, _, o)) in res.iter().enumerate() {
        expansions += o.expansions as u64;
        if o.macro_ok && o.builder_ok {
            both_ok += 1;
        }
        if !o.builder_ok {
            builder_rejects += 1;
        }
        if run.options.aliasing() {
            aliasing += 1;
        }
        *env_faults.entry(run.env_fault.clone()).or_insert(0) += 1;
        distinct.insert(fnv64(format!("{}|{}", run.doc_name, run.options.source("s")).as_bytes()));
        let ok = &run.options;
        for (k, present) in [
            ("derives", !ok.derives.is_empty()),
            ("struct_builder", ok.struct_builder.is_some()),
            ("unknown_crates", ok.unknown_crates.is_some()),
            ("crates", !ok.crates.is_empty()),
            ("crates:renamed", ok.crates.iter().any(|c| c.1.is_some())),
            ("map_type", ok.map_type.is_some()),
            ("patch", !ok.patches.is_empty()),
            ("replace", !ok.replaces.is_empty()),
            ("replace:impls", ok.replaces.iter().any(|r| !r.2.is_empty())),
            ("convert", !ok.converts.is_empty()),
        ] {
            if present {
                *option_kinds.entry(k.to_string()).or_insert(0) += 1;
            }
        }
        for x in &o.violations {
            let relevant = match property {
                "C12" => x.oracle == "O5",
                _ => x.oracle != "O5",
            };
            if !relevant {
                continue;
            }
            match groups.get_mut(&x.key) {
                Some(g) => g.1 += 1,
                None => {
                    groups.insert(x.key.clone(), (idx, 1));
                }
            }
        }
    }
    let mut exit_code = 0;
    let mut n_viol = 0;
    let mut known_lines = BTreeSet::new();
    for (key, (idx, count)) in &groups {
        let (_, run, extra, o) = &res[*idx];
        let x = o.violations.iter().find(|x| &x.key == key).unwrap();
        if let Some(k) = report::match_known(&known, property, &x.oracle, key) {
            known_lines.insert(format!("KNOWN-FINDING: property={property} {}:{} — {} ({} runs)", x.oracle, key, k.what, count));
            continue;
        }
        let min = shrink_macro(run, key, &tools, &work, extra);
        let rf = MacroReplay {
            property: property.to_string(),
            engine: "procsim-macro".into(),
            invariant: x.oracle.clone(),
            finding_key: key.clone(),
            observed: x.observed.clone(),
            expected: x.expected.clone(),
            macro_source: min.options.source("schema.json"),
            run: min,
            extra_hash_seeds: extra.clone(),
        };
        let dir = report::verif_root().join("replays");
        let _ = std::fs::create_dir_all(&dir);
        let safe: String = key.chars().map(|c| if c.is_ascii_alphanumeric() || c == '-' { c } else { '_' }).take(70).collect();
        let path: PathBuf = dir.join(format!("{property}-{safe}-{}.json", run.seed));
        std::fs::write(&path, serde_json::to_string_pretty(&rf).unwrap()).map_err(|e| e.to_string())?;
        let exe = std::env::current_exe().unwrap();
        let out = std::process::Command::new(exe).arg("replay-macro").arg(&path).output().map_err(|e| e.to_string())?;
        if out.status.code() == Some(1) {
            n_viol += 1;
            exit_code = 1;
            println!("violation {}:{} ({} runs, first seed {}): {}", x.oracle, key, count, run.seed, x.observed.chars().take(400).collect::<String>());
            println!("VIOLATION property={property} replay={}", path.display());
        } else {
            return Err(format!(
                "replay of {} did not reproduce (exit {:?}):\n{}",
                path.display(),
                out.status.code(),
                String::from_utf8_lossy(&out.stdout)
            ));
        }
    }
    let samples: Vec<Value> = res
        .iter()
        .take(2)
        .map(|(_, run, extra, o)| json!({"stage": "macro", "seed": run.seed, "doc": run.doc_name, "invocation": run.options.source("schema.json"), "hash_seed": run.hash_seed, "other_hash_seeds": extra, "env_fault": run.env_fault, "macro_ok": o.macro_ok, "builder_ok": o.builder_ok, "items": o.items}))
        .collect();
    println!(
        "{} macro workloads, {} rustc expansions ({} both front-ends ok, {} rejected by the builder, {} aliasing blocks), {:.1}s; {} new violation(s), {} known finding(s)",
        res.len(),
        expansions,
        both_ok,
        builder_rejects,
        aliasing,
        t0.elapsed().as_secs_f64(),
        n_viol,
        known_lines.len()
    );
    Ok(MacroStageResult {
        exit_code,
        evaluations: res.len() as u64,
        distinct: distinct.len() as u64,
        n_viol,
        known_lines,
        stats: json!({
            "workloads": res.len(), "rustc_expansions": expansions, "both_front_ends_ok": both_ok,
            "builder_rejects": builder_rejects, "aliasing_blocks": aliasing, "option_kinds_drawn": option_kinds,
            "environment_faults": env_faults, "hash_seeds_per_workload": extra_n + 1,
            "finding_groups": groups.iter().map(|(k, (_, c))| json!({"key": k, "runs": c})).collect::<Vec<_>>(),
            "components_real": ["typify-macro dylib built from /repo, loaded by real rustc 1.80.1 (-Zunpretty=expanded)", "serde_derive and std derives (expanded on both sides)"],
            "components_stub": ["getrandom of the rustc process (LD_PRELOAD shim)"],
        }),
        samples,
    })
}
