//! sessim — in-process session simulator for typify's TypeSpace API.
//!
//!   sessim check <C01|C06|C07|C12|C16> [--tier quick|thorough] [--seed N] [--workers N] [--runs N]
//!   sessim replay <file>
//!   sessim one <focus> <seed> [--faults]        (debug: print the run and its outcome)
//!   sessim batch <focus> <n> [base] [--faults]  (debug: violation/probe histogram)
use std::collections::BTreeMap;
use verifsim::{check, exec, gen, prng};

fn focus_of(s: &str) -> gen::Focus {
    if s.starts_with("fixtures") {
        return check::focus_of(s);
    }
    match s {
        "compile" => gen::Focus::Compile,
        "defaults" => gen::Focus::Defaults,
        "values" => gen::Focus::Values,
        "cycles" => gen::Focus::Cycles,
        "determinism" => gen::Focus::Determinism,
        _ => gen::Focus::Histories,
    }
}

fn flag(args: &[String], name: &str) -> Option<String> {
    args.iter().position(|a| a == name).and_then(|i| args.get(i + 1).cloned())
}

fn main() {
    // typify panics are part of the simulated world; keep stderr quiet
    std::panic::set_hook(Box::new(|_| {}));
    let args: Vec<String> = std::env::args().collect();
    let cmd = args.get(1).map(|s| s.as_str()).unwrap_or("");
    let faults = args.iter().any(|a| a == "--faults");
    match cmd {
        "check" => {
            let prop = args.get(2).cloned().unwrap_or_default();
            let tier = flag(&args, "--tier")
                .or_else(|| std::env::var("VERIF_TIER").ok())
                .unwrap_or_else(|| "quick".into());
            let seed: u64 = flag(&args, "--seed")
                .or_else(|| std::env::var("VERIF_SEED").ok())
                .and_then(|s| s.parse().ok())
                .unwrap_or(20261002);
            let workers: usize = flag(&args, "--workers").and_then(|s| s.parse().ok()).unwrap_or(16);
            let runs: Option<u64> = flag(&args, "--runs").and_then(|s| s.parse().ok());
            let r = check::check(&prop, &tier, seed, workers, runs);
            std::process::exit(r.exit_code);
        }
        "worker" => {
            let g = |n: &str| flag(&args, n).and_then(|s| s.parse::<u64>().ok()).unwrap_or(0);
            let focus = check::focus_of(&flag(&args, "--focus").unwrap_or_default());
            let code = check::worker(g("--base"), g("--stream"), focus, g("--faults") == 1, g("--from"), g("--stride").max(1), g("--runs"), g("--emit") == 1);
            std::process::exit(code);
        }
        "shrink" => {
            std::process::exit(check::shrink_cmd(&args[2], &args[3]));
        }
        "crashprobe" => {
            // one run with progress marks on stderr (VERIF_TRACE_PROGRESS set by the caller)
            let focus = check::focus_of(&args[2]);
            let faults = args[3] == "1";
            let seed: u64 = args[4].parse().unwrap();
            let d = gen::generate(seed, focus, faults);
            let _ = exec::execute(&d);
            std::process::exit(0);
        }
        "selftest" => {
            let quick = args.iter().any(|a| a == "--quick");
            std::process::exit(check::selftest(quick));
        }
        "replay" => {
            let code = check::replay(&args[2]);
            std::process::exit(code);
        }
        "one" => {
            let seed: u64 = args[3].parse().unwrap();
            let d = gen::generate(seed, focus_of(&args[2]), faults);
            println!("{}", serde_json::to_string_pretty(&d).unwrap());
            let o = exec::execute(&d);
            println!("{}", serde_json::to_string_pretty(&o).unwrap());
        }
        "batch" => {
            let focus = focus_of(&args[2]);
            let n: u64 = args[3].parse().unwrap();
            let base: u64 = args.get(4).and_then(|s| s.parse().ok()).unwrap_or(1);
            let mut keys: BTreeMap<String, (u64, u64)> = BTreeMap::new();
            let mut probes: BTreeMap<String, u64> = BTreeMap::new();
            let t = std::time::Instant::now();
            let stage = check::Stage { name: "batch", focus, faults, runs: n, stream: 0 };
            let res = check::run_stage(base, &stage, 16).unwrap();
            let mut herr = 0;
            for s in &res {
                if let Some(h) = &s.harness_error {
                    herr += 1;
                    if herr < 5 {
                        println!("HARNESS {}: {h}", s.seed);
                    }
                }
                for v in &s.violations {
                    let e = keys.entry(format!("{} {}", v.invariant, v.key)).or_insert((0, s.seed));
                    e.0 += 1;
                }
                for (k, c) in &s.probes {
                    *probes.entry(k.clone()).or_insert(0) += c;
                }
            }
            println!("{} runs in {:?}, harness errors {herr}", n, t.elapsed());
            for (k, (c, s)) in &keys {
                println!("{c:6}  {k}   (e.g. seed {s})");
            }
            println!("--- probes");
            for (k, c) in &probes {
                println!("{c:6}  {k}");
            }
            let _ = prng::fnv64(b"");
        }
        _ => {
            eprintln!("usage: sessim check <prop> [--tier t] [--seed n] | replay <file> | one <focus> <seed> | batch <focus> <n> [base]");
            std::process::exit(2);
        }
    }
}
