//! Replay files, known findings, evidence files, property attribution.

use std::collections::BTreeMap;
use std::path::{Path, PathBuf};

use serde::{Deserialize, Serialize};
use serde_json::{json, Value};

use crate::desc::RunDesc;
use crate::exec::Violation;

/// The typify working tree under test (default /repo; sweeps from a snapshot
/// may point VERIF_REPO at a snapshot of it).
pub fn repo_root() -> PathBuf {
    PathBuf::from(std::env::var("VERIF_REPO").unwrap_or_else(|_| "/repo".into()))
}

pub fn verif_root() -> PathBuf {
    if let Ok(p) = std::env::var("VERIF_ROOT") {
        return PathBuf::from(p);
    }
    PathBuf::from("/verif")
}

/// Which given properties an invariant violation speaks to.
pub fn properties_of(v: &Violation) -> Vec<&'static str> {
    let has_default_class = v
        .key
        .split('|')
        .nth(1)
        .map(|c| c != "no-defaults" && !c.is_empty())
        .unwrap_or(false);
    match v.invariant.as_str() {
        "I1" | "I2" | "I6" => vec!["C16"],
        "I3" if v.key.starts_with("process-crash") => vec!["C01", "C07", "C16"],
        "I3" => {
            if has_default_class {
                vec!["C01", "C06"]
            } else {
                vec!["C01"]
            }
        }
        "I4" => vec!["C16", "C01"],
        "I5" => vec!["C01"],
        "I7" | "I8" => vec!["C07"],
        "I9" => {
            if v.key.starts_with("invalid-default") {
                vec!["C06"]
            } else {
                vec!["C01"]
            }
        }
        "I10" | "H4" | "H5" => vec!["C12"],
        "I11" => {
            if v.key == "rustc:E0072" {
                vec!["C01", "C07"]
            } else {
                vec!["C01"]
            }
        }
        "I12" => vec!["C06"],
        "H1" | "H2" if v.key.ends_with(":order") => vec!["C12"],
        "H1" | "H2" => vec!["C16"],
        "H3" => vec!["C16", "C06"],
        _ => vec![],
    }
}

#[derive(Serialize, Deserialize, Clone, Debug)]
pub struct KnownFinding {
    pub property: String,
    /// exact finding key "<invariant>:<key>", or, when `class_atom` is given,
    /// the part of it before the `|` class separator
    pub key: String,
    /// the finding is identified by a default of this class atom being
    /// involved (e.g. "oneOf:adjacent:item/object"): matches when the class
    /// part of the violation key contains exactly this atom
    #[serde(default)]
    pub class_atom: Option<String>,
    /// the finding is a family of keys: `key` is a prefix of "<invariant>:<key>"
    #[serde(default)]
    pub key_is_prefix: bool,
    /// the class part of the key contains this text anywhere
    #[serde(default)]
    pub class_contains: Option<String>,
    /// like `class_atom`, but the atom only has to END with this text (e.g.
    /// "constrained-string/string" reached directly, through a $ref, or nested)
    #[serde(default)]
    pub class_atom_suffix: Option<String>,
    /// like `class_atom`, but the atom only has to START with this text
    /// (e.g. "ref>integer:" for every integer format)
    #[serde(default)]
    pub class_atom_prefix: Option<String>,
    /// "known" | "fixed"
    pub status: String,
    #[serde(default)]
    pub commit: Option<String>,
    pub what: String,
    #[serde(default)]
    pub replay: Option<String>,
}

pub fn load_known_findings() -> Vec<KnownFinding> {
    let p = verif_root().join("known_findings.json");
    match std::fs::read_to_string(&p) {
        Ok(s) => serde_json::from_str(&s).unwrap_or_else(|e| {
            eprintln!("HARNESS: known_findings.json does not parse: {e}");
            std::process::exit(2);
        }),
        Err(_) => Vec::new(),
    }
}

/// A known finding suppresses a violation only when the property matches and
/// the finding key is exactly the entry's key, and the entry is `known`.
pub fn match_known<'a>(
    known: &'a [KnownFinding],
    property: &str,
    invariant: &str,
    key: &str,
) -> Option<&'a KnownFinding> {
    let full = format!("{invariant}:{key}");
    let (head, class) = match full.split_once('|') {
        Some((h, c)) => (h.to_string(), Some(c.to_string())),
        None => (full.clone(), None),
    };
    known.iter().find(|k| {
        if k.status != "known" || k.property != property {
            return false;
        }
        // every criterion the entry states has to hold
        let class_criteria = k.class_atom.is_some() || k.class_contains.is_some() || k.class_atom_suffix.is_some() || k.class_atom_prefix.is_some();
        let key_ok = if k.key_is_prefix {
            full.starts_with(k.key.as_str())
        } else if class_criteria {
            k.key == head
        } else {
            k.key == full
        };
        if !key_ok {
            return false;
        }
        if !class_criteria {
            return true;
        }
        let Some(c) = &class else { return false };
        if let Some(sub) = &k.class_contains {
            if !c.contains(sub.as_str()) {
                return false;
            }
        }
        if let Some(prefix) = &k.class_atom_prefix {
            if !c.starts_with(prefix.as_str()) {
                return false;
            }
        }
        if let Some(suffix) = &k.class_atom_suffix {
            let by_atom = k.class_atom_prefix.is_none() && crate::model::class_atoms(c).iter().any(|a| a.ends_with(suffix.as_str()));
            if !(by_atom || c.ends_with(suffix.as_str())) {
                return false;
            }
        }
        if let Some(atom) = &k.class_atom {
            if !crate::model::class_atoms(c).contains(atom) {
                return false;
            }
        }
        true
    })
}

#[derive(Serialize, Deserialize, Clone, Debug)]
pub struct ReplayFile {
    pub property: String,
    pub engine: String,
    pub invariant: String,
    pub finding_key: String,
    pub observed: String,
    pub expected: String,
    pub step: usize,
    pub original_seed: u64,
    pub shrink_executions: usize,
    pub run: RunDesc,
}

pub fn write_replay(dir: &Path, r: &ReplayFile) -> std::io::Result<PathBuf> {
    std::fs::create_dir_all(dir)?;
    let safe: String = format!("{}-{}", r.invariant, r.finding_key)
        .chars()
        .map(|c| if c.is_ascii_alphanumeric() || c == '-' { c } else { '_' })
        .take(80)
        .collect();
    let p = dir.join(format!("{}-{}-{}.json", r.property, safe, r.original_seed));
    std::fs::write(&p, serde_json::to_string_pretty(r).unwrap())?;
    Ok(p)
}

#[derive(Default, Debug, Clone)]
pub struct Evidence {
    pub property_id: String,
    pub tier: String,
    pub seed: u64,
    pub level: String,
    pub evaluations: u64,
    pub distinct_nontrivial: u64,
    pub rule: String,
    pub samples: Vec<Value>,
    pub wall_s: f64,
    pub violations: u64,
    pub assumptions: Vec<String>,
    pub extra: BTreeMap<String, Value>,
}

impl Evidence {
    pub fn write(&self) -> std::io::Result<PathBuf> {
        let dir = verif_root().join("evidence");
        std::fs::create_dir_all(&dir)?;
        let mut coverage = serde_json::Map::new();
        coverage.insert("evaluations".into(), json!(self.evaluations));
        coverage.insert("distinct_nontrivial".into(), json!(self.distinct_nontrivial));
        coverage.insert("rule".into(), json!(self.rule));
        coverage.insert("samples".into(), json!(self.samples));
        for (k, v) in &self.extra {
            coverage.insert(k.clone(), v.clone());
        }
        let doc = json!({
            "property_id": self.property_id,
            "tier": self.tier,
            "seed": self.seed,
            "level": self.level,
            "coverage": Value::Object(coverage),
            "assumptions": self.assumptions,
            "wall_s": self.wall_s,
            "violations": self.violations,
        });
        let p = dir.join(format!("{}.json", self.property_id));
        std::fs::write(&p, serde_json::to_string_pretty(&doc).unwrap())?;
        Ok(p)
    }
}
