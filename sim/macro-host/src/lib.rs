// template crate: only its dependency artifacts are used
