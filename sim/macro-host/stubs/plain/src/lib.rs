//! stand-in for an external crate named in x-rust-type annotations: only the
//! paths have to resolve when rustc expands the macro host
pub mod types {
    pub struct Thing0;
    pub struct Thing1;
    pub struct Thing2;
    pub struct Thing3;
}
