#!/bin/sh
# Unchanged-tree alarm sweep: every sessim check at many seeds; prints only alarms.
# usage: ./sweep.sh <first-seed> <last-seed> [tier]
a=${1:-1}; b=${2:-10}; tier=${3:-quick}
# with `vp run --with-repo` the sweep checks a snapshot of /repo's HEAD, so that
# seeded changes applied to /repo meanwhile do not disturb it
[ -n "${VP_RUN_REPO:-}" ] && export VERIF_REPO="$VP_RUN_REPO"
./verif setup >/dev/null 2>&1 || { echo "setup failed"; exit 2; }
for seed in $(seq $a $b); do
  for p in C16 C01 C06 C07 C12 C15; do
    out=$(VERIF_SEED=$seed ./verif check $p --tier $tier 2>&1); code=$?
    echo "seed=$seed $p exit=$code $(echo "$out" | grep -c '^KNOWN-FINDING') known"
    if [ $code -ne 0 ]; then echo "$out" | grep -E "^violation|^VIOLATION|HARNESS" | cut -c1-400; fi
  done
done
